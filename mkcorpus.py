#!/usr/bin/env python3
"""(Re)builds /verif/corpus/<id>/*.json: shrunk failing cases obtained by running the checks against
(a) the tree before each fix: commit and (b) every seeded change. They are replayed by the quick tier."""
import json, os, re, shutil, subprocess, sys, glob
V=os.path.dirname(os.path.abspath(__file__))
def sh(*a, **k): return subprocess.run(a, capture_output=True, text=True, **k)
targets=[]
# (a) parents of the fix commits
log=sh('git','-C','/repo','log','--format=%H %s').stdout.splitlines()
fixmap={'source line':['C17','C02'],'constraint name':['C17'],'ParseParameters panics':['C20','C04'],'nil pointers and invalid':['C09','C05'],'only count rows':['C05'],
 'extended query errors':['C06'],'Close removes':['C07','C06'],'NULL parameters':['C08'],'aborted COPY':['C13'],'oversized message received during COPY':['C13','C10'],
 'password is rejected':['C01'],'stop consuming commands':['C19'],'unknown describe type':['C02'],'binary COPY rows':['C14','C04'],'own type map':['C15'],'Close is safe':['C16'],'statement and portal cache errors':['C06']}
for line in log:
    h,s=line.split(' ',1)
    if not s.startswith('fix:'): continue
    for k,ids in fixmap.items():
        if k in s:
            targets.append(('prefix-'+h[:7], h+'^', None, ids))
# (b) seeded changes
for d in sorted(glob.glob(os.path.join(V,'seeded','C??*'))):
    if not os.path.isdir(d): continue
    name=os.path.basename(d); pid=name[:3]
    targets.append(('seed-'+name, 'HEAD', os.path.join(d,'patch.diff'), [pid]))
only=sys.argv[1:] 
for name,rev,patch,ids in targets:
    if only and not any(o in name for o in only): continue
    wt='/tmp/corpus_wt'
    sh('git','-C','/repo','worktree','remove','--force',wt)
    r=sh('git','-C','/repo','worktree','add','--detach',wt,rev)
    if r.returncode: print('worktree failed',name,r.stderr); continue
    # the hooks must exist in the worktree (parents of early fixes have them: hooks commit is the first)
    if patch:
        r=sh('git','-C',wt,'apply',patch)
        if r.returncode: print('patch failed',name,r.stderr); continue
    for pid in ids:
        shutil.rmtree(os.path.join(V,'replays',pid),ignore_errors=True)
        r=sh(os.path.join(V,'check'),pid,env=dict(os.environ,VERIF_REPO=wt,VERIF_SKIP_CORPUS='1'),cwd=V)
        files=sorted(glob.glob(os.path.join(V,'replays',pid,'*.json')))
        os.makedirs(os.path.join(V,'corpus',pid),exist_ok=True)
        kept=0; seen=set()
        for f in files:
            if os.path.getsize(f) > 200000: continue
            rf=json.load(open(f))
            if rf.get('sig') in seen: continue
            seen.add(rf.get('sig'))
            rf['origin']=name
            base=re.sub(r'[^A-Za-z0-9_.-]','_','%s-%s.json'%(name,os.path.basename(f)[:-5][:70]))
            json.dump(rf,open(os.path.join(V,'corpus',pid,base),'w'),indent=1)
            kept+=1
            if kept>=3: break
        print(name,pid,'rc=%d'%r.returncode,'kept',kept)
    sh('git','-C','/repo','worktree','remove','--force',wt)
shutil.rmtree(os.path.join(V,'replays'),ignore_errors=True)
