package pgwire

import (
	"bytes"
	"encoding/binary"
	"fmt"
	"sort"
	"strings"
)

// Field of a DataRow.
type Field struct {
	Null bool
	Data []byte
}

type ColDesc struct {
	Name   string
	Table  uint32
	AttrNo uint16
	OID    uint32
	Width  int16
	TypMod int32
	Format int16
}

type ErrField struct {
	Code byte
	Text string
}

// BMsg is one strictly parsed backend message.
type BMsg struct {
	Type byte
	Raw  []byte // whole frame

	Auth      int32      // R
	Key, Val  string     // S
	Status    byte       // Z
	Cols      []ColDesc  // T
	Fields    []Field    // D
	Tag       string     // C
	Err       []ErrField // E, N
	OIDs      []uint32   // t
	CopyFmt   byte       // G
	CopyCodes []int16    // G
}

type cur struct {
	b   []byte
	pos int
}

func (c *cur) left() int { return len(c.b) - c.pos }
func (c *cur) u8() (byte, error) {
	if c.left() < 1 {
		return 0, fmt.Errorf("short body: need 1 byte at %d", c.pos)
	}
	v := c.b[c.pos]
	c.pos++
	return v, nil
}
func (c *cur) u16() (uint16, error) {
	if c.left() < 2 {
		return 0, fmt.Errorf("short body: need 2 bytes at %d", c.pos)
	}
	v := binary.BigEndian.Uint16(c.b[c.pos:])
	c.pos += 2
	return v, nil
}
func (c *cur) u32() (uint32, error) {
	if c.left() < 4 {
		return 0, fmt.Errorf("short body: need 4 bytes at %d", c.pos)
	}
	v := binary.BigEndian.Uint32(c.b[c.pos:])
	c.pos += 4
	return v, nil
}
func (c *cur) str() (string, error) {
	i := bytes.IndexByte(c.b[c.pos:], 0)
	if i < 0 {
		return "", fmt.Errorf("string at %d not NUL terminated", c.pos)
	}
	s := string(c.b[c.pos : c.pos+i])
	c.pos += i + 1
	return s, nil
}
func (c *cur) take(n int) ([]byte, error) {
	if n < 0 || c.left() < n {
		return nil, fmt.Errorf("short body: need %d bytes at %d, have %d", n, c.pos, c.left())
	}
	v := c.b[c.pos : c.pos+n]
	c.pos += n
	return v, nil
}

// ParseOne strictly parses the first backend message of b. It returns the
// message and the number of bytes used. Incomplete input is an error too
// (use ParseStream to learn about residue).
func ParseOne(b []byte) (m BMsg, used int, err error) {
	if len(b) < 5 {
		return m, 0, fmt.Errorf("truncated header: %d byte(s) %q", len(b), b)
	}
	m.Type = b[0]
	n := int(binary.BigEndian.Uint32(b[1:5]))
	if n < 4 {
		return m, 0, fmt.Errorf("type %q: length word %d below minimum", m.Type, n)
	}
	if n > 1<<30 {
		return m, 0, fmt.Errorf("type %q: absurd length word %d", m.Type, n)
	}
	if len(b) < 1+n {
		return m, 0, fmt.Errorf("type %q: frame declares %d bytes, stream has %d", m.Type, n, len(b)-1)
	}
	m.Raw = append([]byte(nil), b[:1+n]...)
	c := &cur{b: b[5 : 1+n]}
	fail := func(e error) (BMsg, int, error) {
		return m, 0, fmt.Errorf("type %q body %q: %w", m.Type, trunc(c.b), e)
	}
	switch m.Type {
	case 'R':
		v, e := c.u32()
		if e != nil {
			return fail(e)
		}
		m.Auth = int32(v)
		switch m.Auth {
		case 0, 2, 3, 6, 7, 9:
		case 5:
			if _, e = c.take(4); e != nil {
				return fail(e)
			}
		case 8, 10, 11, 12:
			c.pos = len(c.b)
		default:
			return fail(fmt.Errorf("unknown authentication code %d", m.Auth))
		}
	case 'S':
		if m.Key, err = c.str(); err != nil {
			return fail(err)
		}
		if m.Val, err = c.str(); err != nil {
			return fail(err)
		}
	case 'Z':
		if m.Status, err = c.u8(); err != nil {
			return fail(err)
		}
		if m.Status != 'I' && m.Status != 'T' && m.Status != 'E' {
			return fail(fmt.Errorf("bad transaction status %q", m.Status))
		}
	case 'T':
		k, e := c.u16()
		if e != nil {
			return fail(e)
		}
		for i := 0; i < int(k); i++ {
			var d ColDesc
			if d.Name, e = c.str(); e != nil {
				return fail(fmt.Errorf("column %d/%d: %w", i, k, e))
			}
			t, e1 := c.u32()
			a, e2 := c.u16()
			o, e3 := c.u32()
			w, e4 := c.u16()
			tm, e5 := c.u32()
			f, e6 := c.u16()
			for _, e := range []error{e1, e2, e3, e4, e5, e6} {
				if e != nil {
					return fail(fmt.Errorf("column %d/%d: %w", i, k, e))
				}
			}
			d.Table, d.AttrNo, d.OID, d.Width, d.TypMod, d.Format = t, a, o, int16(w), int32(tm), int16(f)
			if d.Format != 0 && d.Format != 1 {
				return fail(fmt.Errorf("column %d: format code %d", i, d.Format))
			}
			m.Cols = append(m.Cols, d)
		}
	case 'D':
		k, e := c.u16()
		if e != nil {
			return fail(e)
		}
		for i := 0; i < int(k); i++ {
			l, e := c.u32()
			if e != nil {
				return fail(fmt.Errorf("field %d/%d: %w", i, k, e))
			}
			if l == 0xFFFFFFFF {
				m.Fields = append(m.Fields, Field{Null: true})
				continue
			}
			if int32(l) < 0 {
				return fail(fmt.Errorf("field %d: negative length %d", i, int32(l)))
			}
			v, e := c.take(int(l))
			if e != nil {
				return fail(fmt.Errorf("field %d/%d: %w", i, k, e))
			}
			m.Fields = append(m.Fields, Field{Data: append([]byte{}, v...)})
		}
	case 'C':
		if m.Tag, err = c.str(); err != nil {
			return fail(err)
		}
	case 'E', 'N':
		for {
			code, e := c.u8()
			if e != nil {
				return fail(fmt.Errorf("field list not closed by a zero byte: %w", e))
			}
			if code == 0 {
				break
			}
			s, e := c.str()
			if e != nil {
				return fail(fmt.Errorf("field %q: %w", code, e))
			}
			m.Err = append(m.Err, ErrField{code, s})
		}
	case 't':
		k, e := c.u16()
		if e != nil {
			return fail(e)
		}
		for i := 0; i < int(k); i++ {
			o, e := c.u32()
			if e != nil {
				return fail(fmt.Errorf("oid %d/%d: %w", i, k, e))
			}
			m.OIDs = append(m.OIDs, o)
		}
	case 'G', 'H', 'W':
		f, e := c.u8()
		if e != nil {
			return fail(e)
		}
		if f != 0 && f != 1 {
			return fail(fmt.Errorf("overall copy format %d", f))
		}
		m.CopyFmt = f
		k, e := c.u16()
		if e != nil {
			return fail(e)
		}
		for i := 0; i < int(k); i++ {
			v, e := c.u16()
			if e != nil {
				return fail(fmt.Errorf("column code %d/%d: %w", i, k, e))
			}
			if v != 0 && v != 1 {
				return fail(fmt.Errorf("column %d: format code %d", i, v))
			}
			m.CopyCodes = append(m.CopyCodes, int16(v))
		}
	case '1', '2', '3', 'n', 'I', 's', 'c':
		// empty bodies
	case 'K':
		if _, e := c.take(8); e != nil {
			return fail(e)
		}
	case 'A':
		if _, e := c.u32(); e != nil {
			return fail(e)
		}
		if _, e := c.str(); e != nil {
			return fail(e)
		}
		if _, e := c.str(); e != nil {
			return fail(e)
		}
	case 'd':
		c.pos = len(c.b)
	default:
		return fail(fmt.Errorf("unknown backend message type 0x%02x", m.Type))
	}
	if c.left() != 0 {
		return fail(fmt.Errorf("%d surplus byte(s) after the grammar of type %q ended at offset %d", c.left(), m.Type, c.pos))
	}
	return m, 1 + n, nil
}

func trunc(b []byte) []byte {
	if len(b) > 96 {
		return append(append([]byte{}, b[:96]...), "..."...)
	}
	return b
}

// ParseStream strictly parses a whole server byte stream. It returns the
// messages parsed before the first error, the offset of that error, and the
// error. A stream that does not end on a message boundary is an error.
func ParseStream(b []byte) (msgs []BMsg, off int, err error) {
	for off < len(b) {
		m, n, e := ParseOne(b[off:])
		if e != nil {
			return msgs, off, fmt.Errorf("offset %d (after %d message(s) %s): %w", off, len(msgs), Types(msgs), e)
		}
		msgs = append(msgs, m)
		off += n
	}
	return msgs, off, nil
}

// Types renders the message type sequence, e.g. "R S S Z".
func Types(msgs []BMsg) string {
	var sb strings.Builder
	for i, m := range msgs {
		if i > 0 {
			sb.WriteByte(' ')
		}
		sb.WriteByte(m.Type)
	}
	return sb.String()
}

// ErrMap returns the fields of an ErrorResponse as a map and reports codes
// that occur more than once.
func (m BMsg) ErrMap() (map[byte]string, []byte) {
	out := map[byte]string{}
	var dup []byte
	for _, f := range m.Err {
		if _, ok := out[f.Code]; ok {
			dup = append(dup, f.Code)
		}
		out[f.Code] = f.Text
	}
	return out, dup
}

// Brief renders a message for reports.
func (m BMsg) Brief() string {
	switch m.Type {
	case 'R':
		return fmt.Sprintf("R(%d)", m.Auth)
	case 'S':
		return fmt.Sprintf("S(%s=%s)", m.Key, m.Val)
	case 'Z':
		return fmt.Sprintf("Z(%c)", m.Status)
	case 'T':
		var p []string
		for _, c := range m.Cols {
			p = append(p, fmt.Sprintf("%s:%d:%d", c.Name, c.OID, c.Format))
		}
		return "T(" + strings.Join(p, ",") + ")"
	case 'D':
		var p []string
		for _, f := range m.Fields {
			if f.Null {
				p = append(p, "NULL")
			} else {
				p = append(p, fmt.Sprintf("%q", trunc(f.Data)))
			}
		}
		return "D(" + strings.Join(p, ",") + ")"
	case 'C':
		return fmt.Sprintf("C(%q)", m.Tag)
	case 'E', 'N':
		var p []string
		for _, f := range m.Err {
			p = append(p, fmt.Sprintf("%c=%q", f.Code, trunc([]byte(f.Text))))
		}
		return string(m.Type) + "(" + strings.Join(p, ",") + ")"
	case 't':
		return fmt.Sprintf("t%v", m.OIDs)
	case 'G':
		return fmt.Sprintf("G(%d,%v)", m.CopyFmt, m.CopyCodes)
	}
	return string(m.Type)
}

func Briefs(msgs []BMsg) []string {
	out := make([]string, len(msgs))
	for i, m := range msgs {
		out[i] = m.Brief()
	}
	return out
}

// Canon renders a transcript for differential comparison: every message by
// its raw bytes, with each run of consecutive ParameterStatus messages sorted
// (their order is Go map iteration order in the library).
func Canon(msgs []BMsg) []string {
	out := make([]string, 0, len(msgs))
	for i := 0; i < len(msgs); {
		if msgs[i].Type != 'S' {
			out = append(out, string(msgs[i].Raw))
			i++
			continue
		}
		j := i
		var run []string
		for j < len(msgs) && msgs[j].Type == 'S' {
			run = append(run, string(msgs[j].Raw))
			j++
		}
		sort.Strings(run)
		out = append(out, run...)
		i = j
	}
	return out
}

// CanonEqual compares two transcripts under Canon and describes the first
// difference.
func CanonEqual(a, b []BMsg) (bool, string) {
	ca, cb := Canon(a), Canon(b)
	for i := 0; i < len(ca) && i < len(cb); i++ {
		if ca[i] != cb[i] {
			return false, fmt.Sprintf("message %d differs: %q vs %q", i, trunc([]byte(ca[i])), trunc([]byte(cb[i])))
		}
	}
	if len(ca) != len(cb) {
		return false, fmt.Sprintf("length %d vs %d (%s | %s)", len(ca), len(cb), Types(a), Types(b))
	}
	return true, ""
}

// ScanTLSRecords checks that b is a sequence of complete TLS records and
// returns the number of records.
func ScanTLSRecords(b []byte) (int, error) {
	n := 0
	for off := 0; off < len(b); {
		if len(b)-off < 5 {
			return n, fmt.Errorf("offset %d: truncated TLS record header %x", off, b[off:])
		}
		ct := b[off]
		ver := binary.BigEndian.Uint16(b[off+1:])
		l := int(binary.BigEndian.Uint16(b[off+3:]))
		if ct < 20 || ct > 23 {
			return n, fmt.Errorf("offset %d: content type %d is not a TLS record (bytes %q)", off, ct, trunc(b[off:]))
		}
		if ver < 0x0301 || ver > 0x0304 {
			return n, fmt.Errorf("offset %d: record version %#x", off, ver)
		}
		if l > 16384+2048 {
			return n, fmt.Errorf("offset %d: record length %d", off, l)
		}
		if len(b)-off-5 < l {
			return n, fmt.Errorf("offset %d: record declares %d bytes, %d present", off, l, len(b)-off-5)
		}
		off += 5 + l
		n++
	}
	return n, nil
}
