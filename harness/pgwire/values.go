package pgwire

import (
	"bytes"
	"encoding/binary"
	"encoding/hex"
	"fmt"
	"math"
	"strconv"
	"strings"
)

// Supported column types (name -> OID), per the PostgreSQL catalog.
var OIDs = map[string]uint32{
	"bool": 16, "bytea": 17, "name": 19, "int8": 20, "int2": 21, "int4": 23, "text": 25, "oid": 26,
	"json": 114, "_int4": 1007, "_text": 1009, "float4": 700, "jsonb": 3802, "bpchar": 1042, "timestamptz": 1184, "custom": 99999, "float8": 701, "varchar": 1043, "date": 1082, "timestamp": 1114, "uuid": 2950,
}

var TypeNames = []string{"bool", "int2", "int4", "int8", "float4", "float8", "text", "varchar", "name", "bytea", "uuid", "oid", "date", "timestamp", "json", "jsonb", "bpchar", "timestamptz"}

var oidNames = func() map[uint32]string {
	m := map[uint32]string{}
	for k, v := range OIDs {
		m[v] = k
	}
	return m
}()

func TypeOfOID(o uint32) string { return oidNames[o] }

// Canonical decoded values: bool, int64 (int2/4/8, oid, date as days since
// 2000-01-01, timestamp as microseconds since 2000-01-01), float32, float64,
// string (text, varchar, name, json), []byte (bytea), [16]byte (uuid).

// days from civil date (proleptic Gregorian), Howard Hinnant's algorithm.
func daysFromCivil(y, m, d int64) int64 {
	if m <= 2 {
		y--
	}
	var era int64
	if y >= 0 {
		era = y / 400
	} else {
		era = (y - 399) / 400
	}
	yoe := y - era*400
	mp := (m + 9) % 12
	doy := (153*mp+2)/5 + d - 1
	doe := yoe*365 + yoe/4 - yoe/100 + doy
	return era*146097 + doe - 719468
}

func civilFromDays(z int64) (y, m, d int64) {
	z += 719468
	var era int64
	if z >= 0 {
		era = z / 146097
	} else {
		era = (z - 146096) / 146097
	}
	doe := z - era*146097
	yoe := (doe - doe/1460 + doe/36524 - doe/146096) / 365
	y = yoe + era*400
	doy := doe - (365*yoe + yoe/4 - yoe/100)
	mp := (5*doy + 2) / 153
	d = doy - (153*mp+2)/5 + 1
	if mp < 10 {
		m = mp + 3
	} else {
		m = mp - 9
	}
	if m <= 2 {
		y++
	}
	return
}

var epoch2000 = daysFromCivil(2000, 1, 1)

func parseDateText(s string) (int64, error) {
	bc := false
	if strings.HasSuffix(s, " BC") {
		bc = true
		s = strings.TrimSuffix(s, " BC")
	}
	p := strings.Split(s, "-")
	if len(p) != 3 {
		return 0, fmt.Errorf("date %q", s)
	}
	y, e1 := strconv.ParseInt(p[0], 10, 64)
	m, e2 := strconv.ParseInt(p[1], 10, 64)
	d, e3 := strconv.ParseInt(p[2], 10, 64)
	if e1 != nil || e2 != nil || e3 != nil || m < 1 || m > 12 || d < 1 || d > 31 || len(p[1]) != 2 || len(p[2]) != 2 {
		return 0, fmt.Errorf("date %q", s)
	}
	if bc {
		y = 1 - y
	}
	return daysFromCivil(y, m, d) - epoch2000, nil
}

func parseTimestampText(s string) (int64, error) {
	bc := false
	if strings.HasSuffix(s, " BC") {
		bc = true
		s = strings.TrimSuffix(s, " BC")
	}
	i := strings.IndexAny(s, " T")
	if i < 0 {
		return 0, fmt.Errorf("timestamp %q", s)
	}
	ds := s[:i]
	if bc {
		ds += " BC"
	}
	days, err := parseDateText(ds)
	if err != nil {
		return 0, err
	}
	t := s[i+1:]
	frac := ""
	if j := strings.IndexByte(t, '.'); j >= 0 {
		frac = t[j+1:]
		t = t[:j]
	}
	p := strings.Split(t, ":")
	if len(p) != 3 {
		return 0, fmt.Errorf("timestamp %q", s)
	}
	h, e1 := strconv.ParseInt(p[0], 10, 64)
	mi, e2 := strconv.ParseInt(p[1], 10, 64)
	se, e3 := strconv.ParseInt(p[2], 10, 64)
	if e1 != nil || e2 != nil || e3 != nil || h > 24 || mi > 59 || se > 60 {
		return 0, fmt.Errorf("timestamp %q", s)
	}
	var us int64
	if frac != "" {
		if len(frac) > 6 {
			return 0, fmt.Errorf("timestamp %q: more than microsecond precision", s)
		}
		f, e := strconv.ParseInt(frac, 10, 64)
		if e != nil {
			return 0, fmt.Errorf("timestamp %q", s)
		}
		for k := len(frac); k < 6; k++ {
			f *= 10
		}
		us = f
	}
	return ((days*24+h)*60+mi)*60*1000000 + se*1000000 + us, nil
}

// parseTimestamptzText accepts "<timestamp>Z" and "<timestamp>[+-]HH[:MM[:SS]]" (optionally followed by " BC").
func parseTimestamptzText(s string) (int64, error) {
	bc := ""
	if strings.HasSuffix(s, " BC") {
		bc, s = " BC", strings.TrimSuffix(s, " BC")
	}
	off := int64(0)
	if strings.HasSuffix(s, "Z") {
		s = strings.TrimSuffix(s, "Z")
	} else if i := strings.LastIndexAny(s, "+-"); i > 10 {
		sign := int64(1)
		if s[i] == '-' {
			sign = -1
		}
		parts := strings.Split(s[i+1:], ":")
		mult := []int64{3600, 60, 1}
		if len(parts) > 3 {
			return 0, fmt.Errorf("timestamptz %q", s)
		}
		for k, p := range parts {
			v, err := strconv.ParseInt(p, 10, 64)
			if err != nil || len(p) != 2 {
				return 0, fmt.Errorf("timestamptz %q", s)
			}
			off += sign * v * mult[k]
		}
		s = s[:i]
	} else {
		return 0, fmt.Errorf("timestamptz %q without a zone", s)
	}
	us, err := parseTimestampText(s + bc)
	if err != nil {
		return 0, err
	}
	return us - off*1000000, nil
}

func parseFloatText(s string, bits int) (float64, error) {
	l := strings.ToLower(strings.TrimSpace(s))
	switch l {
	case "nan":
		return math.NaN(), nil
	case "inf", "+inf", "infinity", "+infinity":
		return math.Inf(1), nil
	case "-inf", "-infinity":
		return math.Inf(-1), nil
	}
	if strings.ContainsAny(l, "xp_") {
		return 0, fmt.Errorf("float %q", s)
	}
	f, err := strconv.ParseFloat(l, bits)
	if err != nil {
		if ne, ok := err.(*strconv.NumError); ok && ne.Err == strconv.ErrRange {
			return f, nil
		}
		return 0, fmt.Errorf("float %q", s)
	}
	return f, nil
}

func parseByteaText(b []byte) ([]byte, error) {
	if bytes.HasPrefix(b, []byte(`\x`)) {
		out, err := hex.DecodeString(string(b[2:]))
		if err != nil {
			return nil, fmt.Errorf("bytea hex %q", trunc(b))
		}
		return out, nil
	}
	// escape format
	var out []byte
	for i := 0; i < len(b); i++ {
		if b[i] != '\\' {
			out = append(out, b[i])
			continue
		}
		if i+1 < len(b) && b[i+1] == '\\' {
			out = append(out, '\\')
			i++
			continue
		}
		if i+3 < len(b) {
			v, err := strconv.ParseUint(string(b[i+1:i+4]), 8, 8)
			if err == nil {
				out = append(out, byte(v))
				i += 3
				continue
			}
		}
		return nil, fmt.Errorf("bytea escape %q", trunc(b))
	}
	if out == nil {
		out = []byte{}
	}
	return out, nil
}

// Decode decodes one non-NULL field of the given type in the given format.
func Decode(typ string, format int16, b []byte) (any, error) {
	if format != 0 && format != 1 {
		return nil, fmt.Errorf("format %d", format)
	}
	text := format == 0
	need := func(n int) error {
		if len(b) != n {
			return fmt.Errorf("%s binary: %d byte(s), want %d", typ, len(b), n)
		}
		return nil
	}
	switch typ {
	case "bool":
		if text {
			switch strings.ToLower(string(b)) {
			case "t", "true", "on", "1", "yes", "y":
				return true, nil
			case "f", "false", "off", "0", "no", "n":
				return false, nil
			}
			return nil, fmt.Errorf("bool text %q", b)
		}
		if err := need(1); err != nil {
			return nil, err
		}
		if b[0] > 1 {
			return nil, fmt.Errorf("bool binary %d", b[0])
		}
		return b[0] == 1, nil
	case "int2", "int4", "int8":
		bits := map[string]int{"int2": 16, "int4": 32, "int8": 64}[typ]
		if text {
			v, err := strconv.ParseInt(string(b), 10, bits)
			if err != nil {
				return nil, fmt.Errorf("%s text %q", typ, b)
			}
			return v, nil
		}
		if err := need(bits / 8); err != nil {
			return nil, err
		}
		switch bits {
		case 16:
			return int64(int16(binary.BigEndian.Uint16(b))), nil
		case 32:
			return int64(int32(binary.BigEndian.Uint32(b))), nil
		}
		return int64(binary.BigEndian.Uint64(b)), nil
	case "oid":
		if text {
			v, err := strconv.ParseUint(string(b), 10, 32)
			if err != nil {
				return nil, fmt.Errorf("oid text %q", b)
			}
			return int64(v), nil
		}
		if err := need(4); err != nil {
			return nil, err
		}
		return int64(binary.BigEndian.Uint32(b)), nil
	case "float4":
		if text {
			f, err := parseFloatText(string(b), 32)
			return float32(f), err
		}
		if err := need(4); err != nil {
			return nil, err
		}
		return math.Float32frombits(binary.BigEndian.Uint32(b)), nil
	case "float8":
		if text {
			return parseFloatText(string(b), 64)
		}
		if err := need(8); err != nil {
			return nil, err
		}
		return math.Float64frombits(binary.BigEndian.Uint64(b)), nil
	case "text", "varchar", "name", "json", "bpchar", "custom":
		return string(b), nil
	case "jsonb":
		if text {
			return string(b), nil
		}
		if len(b) < 1 || b[0] != 1 {
			return nil, fmt.Errorf("jsonb binary: missing version byte 1 in %q", trunc(b))
		}
		return string(b[1:]), nil
	case "timestamptz":
		if text {
			return parseTimestamptzText(string(b))
		}
		if err := need(8); err != nil {
			return nil, err
		}
		return int64(binary.BigEndian.Uint64(b)), nil
	case "bytea":
		if text {
			return parseByteaText(b)
		}
		return append([]byte{}, b...), nil
	case "uuid":
		var u [16]byte
		if text {
			s := strings.ReplaceAll(string(b), "-", "")
			raw, err := hex.DecodeString(s)
			if err != nil || len(raw) != 16 {
				return nil, fmt.Errorf("uuid text %q", b)
			}
			copy(u[:], raw)
			return u, nil
		}
		if err := need(16); err != nil {
			return nil, err
		}
		copy(u[:], b)
		return u, nil
	case "date":
		if text {
			return parseDateText(string(b))
		}
		if err := need(4); err != nil {
			return nil, err
		}
		return int64(int32(binary.BigEndian.Uint32(b))), nil
	case "timestamp":
		if text {
			return parseTimestampText(string(b))
		}
		if err := need(8); err != nil {
			return nil, err
		}
		return int64(binary.BigEndian.Uint64(b)), nil
	}
	return nil, fmt.Errorf("unsupported type %q", typ)
}

// Encode renders a canonical value in the given format (harness -> server
// direction: Bind parameters, binary COPY fields).
func Encode(typ string, format int16, v any) []byte {
	text := format == 0
	switch typ {
	case "bool":
		x := v.(bool)
		if text {
			if x {
				return []byte("t")
			}
			return []byte("f")
		}
		if x {
			return []byte{1}
		}
		return []byte{0}
	case "int2", "int4", "int8":
		x := v.(int64)
		if text {
			return []byte(strconv.FormatInt(x, 10))
		}
		switch typ {
		case "int2":
			return be16(uint16(x))
		case "int4":
			return be32(uint32(x))
		}
		b := make([]byte, 8)
		binary.BigEndian.PutUint64(b, uint64(x))
		return b
	case "oid":
		x := v.(int64)
		if text {
			return []byte(strconv.FormatInt(x, 10))
		}
		return be32(uint32(x))
	case "float4":
		x := v.(float32)
		if text {
			return []byte(floatText(float64(x), 32))
		}
		return be32(math.Float32bits(x))
	case "float8":
		x := v.(float64)
		if text {
			return []byte(floatText(x, 64))
		}
		b := make([]byte, 8)
		binary.BigEndian.PutUint64(b, math.Float64bits(x))
		return b
	case "text", "varchar", "name", "json", "bpchar", "custom":
		return []byte(v.(string))
	case "jsonb":
		if text {
			return []byte(v.(string))
		}
		return append([]byte{1}, v.(string)...)
	case "timestamptz":
		if text {
			return append(Encode("timestamp", 0, v), "+00"...)
		}
		return Encode("timestamp", 1, v)
	case "bytea":
		x := v.([]byte)
		if text {
			return []byte(`\x` + hex.EncodeToString(x))
		}
		return append([]byte{}, x...)
	case "uuid":
		x := v.([16]byte)
		if text {
			h := hex.EncodeToString(x[:])
			return []byte(h[0:8] + "-" + h[8:12] + "-" + h[12:16] + "-" + h[16:20] + "-" + h[20:])
		}
		return append([]byte{}, x[:]...)
	case "date":
		x := v.(int64)
		if text {
			y, m, d := civilFromDays(x + epoch2000)
			return []byte(fmt.Sprintf("%04d-%02d-%02d", y, m, d))
		}
		return be32(uint32(int32(x)))
	case "timestamp":
		x := v.(int64)
		if text {
			days := x / 86400000000
			rem := x % 86400000000
			if rem < 0 {
				rem += 86400000000
				days--
			}
			y, m, d := civilFromDays(days + epoch2000)
			us := rem % 1000000
			s := rem / 1000000
			out := fmt.Sprintf("%04d-%02d-%02d %02d:%02d:%02d", y, m, d, s/3600, (s/60)%60, s%60)
			if us != 0 {
				out += strings.TrimRight(fmt.Sprintf(".%06d", us), "0")
			}
			return []byte(out)
		}
		b := make([]byte, 8)
		binary.BigEndian.PutUint64(b, uint64(x))
		return b
	}
	panic("pgwire.Encode: unsupported type " + typ)
}

func floatText(f float64, bits int) string {
	switch {
	case math.IsNaN(f):
		return "NaN"
	case math.IsInf(f, 1):
		return "Infinity"
	case math.IsInf(f, -1):
		return "-Infinity"
	}
	return strconv.FormatFloat(f, 'g', -1, bits)
}

// ValEqual compares two canonical values: floats bit-equal except that any
// NaN equals any NaN; byte slices by content.
func ValEqual(a, b any) bool {
	switch x := a.(type) {
	case float32:
		y, ok := b.(float32)
		if !ok {
			return false
		}
		if x != x && y != y {
			return true
		}
		return math.Float32bits(x) == math.Float32bits(y)
	case float64:
		y, ok := b.(float64)
		if !ok {
			return false
		}
		if x != x && y != y {
			return true
		}
		return math.Float64bits(x) == math.Float64bits(y)
	case []byte:
		y, ok := b.([]byte)
		return ok && bytes.Equal(x, y)
	}
	return a == b
}

func ValString(v any) string {
	switch x := v.(type) {
	case nil:
		return "NULL"
	case []byte:
		return fmt.Sprintf("bytes(%x)", trunc(x))
	case [16]byte:
		return fmt.Sprintf("uuid(%x)", x[:])
	case string:
		return fmt.Sprintf("%q", trunc([]byte(x)))
	case float32:
		return fmt.Sprintf("f32(%v/%#x)", x, math.Float32bits(x))
	case float64:
		return fmt.Sprintf("f64(%v/%#x)", x, math.Float64bits(x))
	}
	return fmt.Sprintf("%T(%v)", v, v)
}
