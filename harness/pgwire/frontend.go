// Package pgwire is the harness's own PostgreSQL v3 codec. It is written from
// the protocol documentation and shares no code with the library under test
// (pkg/buffer, pkg/types) nor with pgx.
package pgwire

import (
	"encoding/binary"
)

const (
	Version30  = 196608
	CodeCancel = 80877102
	CodeSSL    = 80877103
	CodeGSS    = 80877104
)

func be32(v uint32) []byte { b := make([]byte, 4); binary.BigEndian.PutUint32(b, v); return b }
func be16(v uint16) []byte { b := make([]byte, 2); binary.BigEndian.PutUint16(b, v); return b }

// Untyped builds a startup-phase packet: length (incl. itself), code, body.
func Untyped(code uint32, body []byte) []byte {
	out := be32(uint32(8 + len(body)))
	out = append(out, be32(code)...)
	return append(out, body...)
}

// StartupBody encodes key/value pairs followed by the terminator.
func StartupBody(pairs [][2]string) []byte {
	var b []byte
	for _, kv := range pairs {
		b = append(b, kv[0]...)
		b = append(b, 0)
		b = append(b, kv[1]...)
		b = append(b, 0)
	}
	return append(b, 0)
}

func Startup(pairs [][2]string) []byte { return Untyped(Version30, StartupBody(pairs)) }
func SSLRequest() []byte               { return Untyped(CodeSSL, nil) }
func CancelRequest(pid, key uint32) []byte {
	return Untyped(CodeCancel, append(be32(pid), be32(key)...))
}

// Msg builds a typed frame with a correct length.
func Msg(t byte, body []byte) []byte {
	out := []byte{t}
	out = append(out, be32(uint32(4+len(body)))...)
	return append(out, body...)
}

// RawFrame builds a typed frame with an arbitrary declared length word.
func RawFrame(t byte, lengthWord uint32, body []byte) []byte {
	out := []byte{t}
	out = append(out, be32(lengthWord)...)
	return append(out, body...)
}

func cstr(s string) []byte { return append([]byte(s), 0) }

func Query(q string) []byte    { return Msg('Q', cstr(q)) }
func Password(p string) []byte { return Msg('p', cstr(p)) }
func Sync() []byte             { return Msg('S', nil) }
func Flush() []byte            { return Msg('H', nil) }
func Terminate() []byte        { return Msg('X', nil) }
func CopyData(b []byte) []byte { return Msg('d', b) }
func CopyDone() []byte         { return Msg('c', nil) }
func CopyFail(m string) []byte { return Msg('f', cstr(m)) }

func ParseBody(name, query string, oids []uint32) []byte {
	b := cstr(name)
	b = append(b, cstr(query)...)
	b = append(b, be16(uint16(len(oids)))...)
	for _, o := range oids {
		b = append(b, be32(o)...)
	}
	return b
}
func Parse(name, query string, oids []uint32) []byte { return Msg('P', ParseBody(name, query, oids)) }

// BindBody encodes a Bind message; a nil entry of params is SQL NULL.
func BindBody(portal, stmt string, pfmts []int16, params [][]byte, rfmts []int16) []byte {
	b := cstr(portal)
	b = append(b, cstr(stmt)...)
	b = append(b, be16(uint16(len(pfmts)))...)
	for _, f := range pfmts {
		b = append(b, be16(uint16(f))...)
	}
	b = append(b, be16(uint16(len(params)))...)
	for _, p := range params {
		if p == nil {
			b = append(b, be32(0xFFFFFFFF)...)
			continue
		}
		b = append(b, be32(uint32(len(p)))...)
		b = append(b, p...)
	}
	b = append(b, be16(uint16(len(rfmts)))...)
	for _, f := range rfmts {
		b = append(b, be16(uint16(f))...)
	}
	return b
}
func Bind(portal, stmt string, pfmts []int16, params [][]byte, rfmts []int16) []byte {
	return Msg('B', BindBody(portal, stmt, pfmts, params, rfmts))
}

func Describe(kind byte, name string) []byte { return Msg('D', append([]byte{kind}, cstr(name)...)) }
func Close(kind byte, name string) []byte    { return Msg('C', append([]byte{kind}, cstr(name)...)) }
func Execute(portal string, limit uint32) []byte {
	return Msg('E', append(cstr(portal), be32(limit)...))
}

// Frames splits a well-framed client byte stream (typed messages only) into
// frames; used by generators and oracles to know message boundaries. It stops
// at the first incomplete frame and returns the rest.
func Frames(b []byte) (frames [][]byte, rest []byte) {
	for len(b) >= 5 {
		n := int(binary.BigEndian.Uint32(b[1:5]))
		if n < 4 || 1+n > len(b) {
			break
		}
		frames = append(frames, b[:1+n])
		b = b[1+n:]
	}
	return frames, b
}
