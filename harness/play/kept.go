package play

import (
	"fmt"
	"strings"

	"verif/harness/pgwire"
	"verif/harness/script"
)

// KeptState: a session that uses, late, what it built up early (C10: "the message after it is
// processed normally"; C03: the transcript depends on the byte stream alone, not on how much traffic
// this or another connection has seen): messages that use
// what the session built up before the oversized one: a prepared statement, a
// bound portal with a parameter value, on a connection that has already read
// Pre/Mid bytes of ordinary traffic (so that the skipped body meets every
// position inside whatever blocks the reader works with).
type KeptState struct {
	Limit    int    `json:"limit"`
	Pre      []int  `json:"pre,omitempty"` // body sizes of queries before the state is built
	Mid      []int  `json:"mid,omitempty"` // ... between the state and the oversized message
	ParamLen int    `json:"param_len"`
	OverType byte   `json:"over_type"`
	OverBy   int    `json:"over_by"` // declared body = Limit + OverBy
	Overs    int    `json:"overs"`   // number of oversized messages in a row (>= 1)
	Use      string `json:"use"`     // execute | describe-portal | bind-again | describe-stmt | execute-twice
	Segs     []int  `json:"segs,omitempty"`
	// SubMin: length words below the 4-byte minimum (one message each, no body), sent where the oversized
	// messages go: rejected like them (one ErrorResponse, optional ReadyForQuery), what follows is read
	// as it stands - a length of 0..3 never turns into a skip of 2^32 bytes
	SubMin []uint32 `json:"sub_min,omitempty"`
	// Discarding: a failing extended message (Bind of an unknown statement) precedes the oversized
	// messages, so that they arrive while the session discards up to the next Sync; their bodies then
	// consist of message-shaped bytes (Sync, Query): a body is skipped, never read as messages
	Discarding bool `json:"discarding,omitempty"`
}

func (c KeptState) History() History {
	par := script.Stmt{Params: []uint32{25}, Cols: []script.Col{{Name: "a", T: "text"}}, Ops: []script.Op{{K: "row", Vals: []script.Val{{T: "text", S: "row"}}}, {K: "complete", Tag: "SELECT 1"}}}
	def := script.Outcome{Stmts: []script.Stmt{{Ops: []script.Op{{K: "complete", Tag: "ANY"}}}}}
	h := History{Segs: c.Segs, Cycle: c.Segs != nil}
	h.Cfg = script.Config{SetLimit: true, Limit: c.Limit, Table: script.Table{Q: map[string]script.Outcome{"select $1": {Stmts: []script.Stmt{par}}}, Def: &def}}
	fill := func(sizes []int) {
		for i, n := range sizes {
			if n > c.Limit-1 {
				n = c.Limit - 1
			}
			if n < 1 {
				n = 1
			}
			q := fmt.Sprintf("f%d", i)
			if len(q) > n {
				q = q[:n]
			}
			h.Msgs = append(h.Msgs, script.CMsg{K: "Q", Query: q + strings.Repeat("x", n-len(q))})
		}
	}
	fill(c.Pre)
	pl := c.ParamLen
	if pl > c.Limit-30 {
		pl = c.Limit - 30
	}
	if pl < 0 {
		pl = 0
	}
	val := []byte(strings.Repeat("v", pl))
	h.Msgs = append(h.Msgs,
		script.CMsg{K: "P", Name: "sk", Query: "select $1", OIDs: []uint32{25}},
		script.CMsg{K: "B", Portal: "pk", Name: "sk", Params: []*[]byte{&val}},
		script.CMsg{K: "S"})
	fill(c.Mid)
	if c.Discarding && c.Overs > 0 {
		h.Msgs = append(h.Msgs, script.CMsg{K: "B", Portal: "never", Name: "no such statement"})
	}
	for i := 0; i < c.Overs; i++ {
		if c.Discarding {
			body := make([]byte, 0, c.Limit+c.OverBy)
			unit := append(pgwire.Sync(), pgwire.Query("smuggled in a skipped body")...)
			for len(body)+len(unit) <= c.Limit+c.OverBy {
				body = append(body, unit...)
			}
			body = append(body, make([]byte, c.Limit+c.OverBy-len(body))...)
			h.Msgs = append(h.Msgs, script.CMsg{K: "raw", Over: true, Data: pgwire.Msg(c.OverType, body)})
			continue
		}
		h.Msgs = append(h.Msgs, script.CMsg{K: "raw", Over: true, Data: pgwire.Msg(c.OverType, make([]byte, c.Limit+c.OverBy))})
	}
	if c.Discarding && c.Overs > 0 {
		h.Msgs = append(h.Msgs, script.CMsg{K: "S"})
	}
	for _, lw := range c.SubMin {
		h.Msgs = append(h.Msgs, script.CMsg{K: "raw", Over: true, MayClose: true, Data: pgwire.RawFrame(c.OverType, lw%4, nil)})
	}
	switch c.Use {
	case "execute":
		h.Msgs = append(h.Msgs, script.CMsg{K: "E", Portal: "pk"})
	case "execute-twice":
		h.Msgs = append(h.Msgs, script.CMsg{K: "E", Portal: "pk"}, script.CMsg{K: "E", Portal: "pk"})
	case "describe-portal":
		h.Msgs = append(h.Msgs, script.CMsg{K: "D", Kind: 'P', Portal: "pk"})
	case "describe-stmt":
		h.Msgs = append(h.Msgs, script.CMsg{K: "D", Kind: 'S', Name: "sk"})
	case "bind-again":
		h.Msgs = append(h.Msgs, script.CMsg{K: "B", Portal: "p2", Name: "sk", Params: []*[]byte{&val}}, script.CMsg{K: "E", Portal: "p2"})
	}
	h.Msgs = append(h.Msgs, script.CMsg{K: "S"}, script.CMsg{K: "Q", Query: "after"})
	return h
}
