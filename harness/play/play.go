// Package play runs a client message history against a live server step by
// step (quiescence after every message) and compares replies and callback
// events with the reference model.
package play

import (
	"fmt"

	"verif/harness/memnet"
	"verif/harness/model"
	"verif/harness/pgwire"
	"verif/harness/script"
)

// History is a generated case for the model-based properties.
type History struct {
	Cfg   script.Config `json:"cfg"`
	User  string        `json:"user,omitempty"`
	Msgs  []script.CMsg `json:"msgs"`
	Segs  []int         `json:"segs,omitempty"`
	Cycle bool          `json:"cycle,omitempty"`
	// Carry[i] > 0: the first Carry[i] bytes of message i+1 (never the whole message) are sent in the
	// same write as message i. The reply to message i must still be there at quiescence: a reply is
	// delivered without waiting for further client input.
	Carry []int `json:"carry,omitempty"`
	// TLS: the whole session runs inside a TLS session negotiated with SSLRequest (the server gets a
	// certificate); what the protocol does must not depend on the transport.
	TLS bool `json:"tls,omitempty"`
	// Proto: protocol version word of the start-up packet (0 = 3.0). Only RunRaw honours it: the
	// library does not interpret the version, and the grammar of what it sends holds for every value.
	Proto uint32 `json:"proto,omitempty"`
}

// Outcome of playing a history.
type Outcome struct {
	Sig          string
	Violation    string
	Inconclusive string
	Transcript   [][]string // per client message: brief replies
	Env          *script.Env
	Replies      [][]pgwire.BMsg
	Expected     [][]model.Exp
	ZCount       int
	ECount       int
}

func (o *Outcome) fail(sig, format string, a ...any) *Outcome {
	o.Sig, o.Violation = sig, fmt.Sprintf(format, a...)
	return o
}

// Options tune what Run compares.
type Options struct {
	Prefix     string // signature prefix, e.g. "C05"
	SkipEvents bool
	KeepEnv    bool // do not stop the server (caller does)
	// AfterStep is called after every compared step (may add checks).
	AfterStep func(i int, msg script.CMsg, step script.Step, env *script.Env) string
}

// Run plays h and returns the first disagreement with the model.
func Run(h History, opt Options) *Outcome {
	o := &Outcome{}
	if h.TLS {
		h.Cfg.TLS = "cert"
	}
	env := script.Start(h.Cfg)
	o.Env = env
	if !opt.KeepEnv {
		defer env.Stop()
	}
	var s script.Session
	if h.TLS {
		ts, err := env.NewTLSSess()
		if err != nil {
			return o.fail(opt.Prefix+"/tls-negotiation", "TLS negotiation failed: %v", err)
		}
		s = ts
	} else {
		s = env.NewSess()
	}
	if h.Segs != nil {
		s.Conn().SetSegments(h.Segs, h.Cycle)
	}
	user := h.User
	if user == "" {
		user = "u"
	}
	var pass *string
	if h.Cfg.Auth != nil {
		p := h.Cfg.Auth.Pass
		pass = &p
		user = h.Cfg.Auth.User
	}
	st := s.Startup(script.DefaultPairs(user), pass)
	if st.State == memnet.Timeout {
		o.Inconclusive = "startup did not reach quiescence within the guard"
		return o
	}
	if st.Err != nil || !script.Ready(st.Msgs) {
		return o.fail(opt.Prefix+"/startup", "startup did not end in ReadyForQuery: %v %v", st.Err, pgwire.Briefs(st.Msgs))
	}
	md := model.New(h.Cfg.Table)
	md.NoParse = h.Cfg.NoParse
	md.HasTerm = h.Cfg.Term != nil
	if h.Cfg.CustomCaches {
		md.StmtCap, md.PortalCap = h.Cfg.StmtCap, h.Cfg.PortalCap
	}
	var sentAhead int // bytes of the current message that were already sent with the previous one
	for i, msg := range h.Msgs {
		before := len(env.Trace())
		var snap *model.Model
		if msg.AltFail {
			snap = md.Snapshot()
		}
		exp, evs := md.Step(msg)
		out := msg.Bytes()[sentAhead:]
		sentAhead = 0
		if i < len(h.Carry) && h.Carry[i] > 0 && i+1 < len(h.Msgs) && !md.Closed {
			next := h.Msgs[i+1].Bytes()
			k := h.Carry[i]
			if k >= len(next) {
				k = len(next) - 1
			}
			if k > 0 {
				out = append(append([]byte{}, out...), next[:k]...)
				sentAhead = k
			}
		}
		step := s.Send(out)
		o.Transcript = append(o.Transcript, pgwire.Briefs(step.Msgs))
		o.Replies = append(o.Replies, step.Msgs)
		o.Expected = append(o.Expected, exp)
		for _, m := range step.Msgs {
			switch m.Type {
			case 'Z':
				o.ZCount++
			case 'E':
				o.ECount++
			}
		}
		where := fmt.Sprintf("message %d %s", i, msg)
		if step.State == memnet.Timeout {
			o.Inconclusive = where + ": no quiescence within the guard"
			return o
		}
		if ps := env.Panics(); len(ps) > 0 {
			return o.fail(opt.Prefix+"/"+msg.K+"/panic", "%s: connection goroutine panicked: %s", where, ps[0].Value)
		}
		if step.Err != nil {
			return o.fail(opt.Prefix+"/"+msg.K+"/grammar", "%s: %v", where, step.Err)
		}
		if snap != nil && step.Err == nil && step.State == memnet.Idle && len(step.Msgs) == 1 && step.Msgs[0].Type == 'E' && !snap.Discard {
			// refused: what the message would have defined does not exist, the rest is discarded up to Sync
			md.Restore(snap)
			md.Discard = true
			exp, evs = []model.Exp{{T: 'E', Why: "message refused (admissible alternative)"}}, nil
		}
		if msg.MayClose && step.State == memnet.Closed && step.Err == nil {
			// rejected as fatal: nothing but (at most) one ErrorResponse, and the session is over
			ok := len(step.Msgs) <= 1
			for _, m := range step.Msgs {
				ok = ok && m.Type == 'E'
			}
			if ok {
				return o
			}
		}
		if d := model.Match(exp, step.Msgs); d != "" {
			return o.fail(opt.Prefix+"/"+msg.K+"/reply", "%s: %s", where, d)
		}
		if step.State == memnet.Closed && !md.Closed {
			return o.fail(opt.Prefix+"/"+msg.K+"/dropped", "%s: the server closed the connection (expected replies %s)", where, model.Exps(exp))
		}
		if md.Closed && step.State != memnet.Closed && !md.SrvClosing {
			return o.fail(opt.Prefix+"/"+msg.K+"/not-closed", "%s: connection still open after Terminate", where)
		}
		if !opt.SkipEvents {
			if d := model.MatchEvents(evs, env.Trace()[before:]); d != "" {
				return o.fail(opt.Prefix+"/"+msg.K+"/events", "%s: %s", where, d)
			}
		}
		if opt.AfterStep != nil {
			if d := opt.AfterStep(i, msg, step, env); d != "" {
				return o.fail(opt.Prefix+"/"+msg.K+"/after", "%s: %s", where, d)
			}
		}
		if md.Closed {
			break
		}
	}
	return o
}

// Raw is the result of playing a history without a model.
type Raw struct {
	Out          []byte
	Msgs         []pgwire.BMsg
	GrammarErr   error
	ErrOffset    int
	Trace        []script.Event
	Panics       []script.PanicRec
	Closed       bool
	Inconclusive string
	Conn         *memnet.Conn
}

// RawOptions for RunRaw.
type RawOptions struct {
	AtOnce   bool   // preload every byte before the server starts reading
	Prefix   []byte // sent before the startup packet (e.g. SSLRequest)
	BadPass  bool   // send a wrong password when auth is configured
	NoEOF    bool   // do not close the client side at the end
	Fault    *memnet.Fault
	KeepEnv  func(env *script.Env, s *script.Sess)
	Stepwise bool // wait for quiescence after every message
}

// StartupBytes renders the startup (and password) bytes for a history.
func StartupBytes(h History, badPass bool) []byte {
	user := h.User
	if user == "" {
		user = "u"
	}
	if h.Cfg.Auth != nil {
		user = h.Cfg.Auth.User
	}
	b := pgwire.Startup(script.DefaultPairs(user))
	if h.Proto != 0 {
		b = pgwire.Untyped(h.Proto, pgwire.StartupBody(script.DefaultPairs(user)))
	}
	if h.Cfg.Auth != nil {
		p := h.Cfg.Auth.Pass
		if badPass {
			p += "-wrong"
		}
		b = append(b, pgwire.Password(p)...)
	}
	return b
}

// RunRaw plays the history and returns everything observable.
func RunRaw(h History, opt RawOptions) *Raw {
	r := &Raw{}
	env := script.Start(h.Cfg)
	defer env.Stop()
	c := env.NewConn()
	r.Conn = c
	if h.Segs != nil {
		c.SetSegments(h.Segs, h.Cycle)
	}
	if opt.Fault != nil {
		c.SetFault(opt.Fault)
	}
	first := append(append([]byte{}, opt.Prefix...), StartupBytes(h, opt.BadPass)...)
	wait := func() bool {
		if st := c.WaitIdle(script.Guard); st == memnet.Timeout {
			r.Inconclusive = "no quiescence within the guard"
			return false
		}
		return true
	}
	if opt.AtOnce {
		all := first
		for _, m := range h.Msgs {
			all = append(all, m.Bytes()...)
		}
		c.Send(all)
		if !opt.NoEOF {
			c.CloseWrite()
		}
		_ = env.L.Deliver(c)
		if !wait() {
			return r
		}
	} else {
		_ = env.L.Deliver(c)
		c.Send(first)
		if !wait() {
			return r
		}
		for _, m := range h.Msgs {
			c.Send(m.Bytes())
			if opt.Stepwise && !wait() {
				return r
			}
		}
		if !opt.NoEOF {
			c.CloseWrite()
		}
		if !wait() {
			return r
		}
	}
	r.Closed, _ = c.ServerClosed()
	r.Out = c.Output()
	body := r.Out
	if len(opt.Prefix) > 0 && len(body) > 0 && (body[0] == 'N' || body[0] == 'S') {
		body = body[1:]
	}
	r.Msgs, r.ErrOffset, r.GrammarErr = pgwire.ParseStream(body)
	r.Trace = env.Trace()
	r.Panics = env.Panics()
	return r
}
