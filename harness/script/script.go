package script

import (
	"context"
	"crypto/ecdsa"
	"crypto/elliptic"
	"crypto/rand"
	"crypto/tls"
	"crypto/x509"
	"crypto/x509/pkix"
	"errors"
	"fmt"
	"io"
	"log/slog"
	"math/big"
	"sort"
	"strconv"
	"strings"
	"sync"
	"time"

	"github.com/jackc/pgx/v5/pgtype"
	wire "github.com/jeroenrinzema/psql-wire"
	"github.com/jeroenrinzema/psql-wire/pkg/buffer"
	"github.com/lib/pq/oid"

	"verif/harness/memnet"
	"verif/harness/pgwire"
)

// CopySpec tells a statement script how to run a COPY-in.
type CopySpec struct {
	Format   int16    `json:"format"`             // requested in CopyIn
	Rows     bool     `json:"rows,omitempty"`     // read through NewBinaryColumnReader instead of chunk-wise
	MaxReads int      `json:"max_reads"`          // stop after this many successful reads; <0 = until EOF/error
	OnAbort  string   `json:"on_abort,omitempty"` // propagate | own | swallow
	Own      *ErrSpec `json:"own,omitempty"`      // error returned for OnAbort=own
	StopErr  *ErrSpec `json:"stop_err,omitempty"` // returned when MaxReads was reached (nil: continue with next op)
}

// Op is one step of a statement function.
type Op struct {
	K    string    `json:"k"` // row|complete|empty|written|copyin|ret|gate
	Vals []Val     `json:"vals,omitempty"`
	Tag  string    `json:"tag,omitempty"`
	Err  *ErrSpec  `json:"err,omitempty"`
	Copy *CopySpec `json:"copy,omitempty"`
	Gate string    `json:"gate,omitempty"`
}

// Stmt is one prepared statement returned by the parser.
type Stmt struct {
	Cols        []Col    `json:"cols,omitempty"`
	Params      []uint32 `json:"params,omitempty"`       // declared parameter OIDs
	ParseParams bool     `json:"parse_params,omitempty"` // declare wire.ParseParameters(query) instead
	ScanAs      []string `json:"scan_as,omitempty"`      // type names to Scan parameter i with
	Ops         []Op     `json:"ops,omitempty"`
	ID          string   `json:"id,omitempty"`
}

// Outcome of the parser for one query text.
type Outcome struct {
	Err   *ErrSpec `json:"err,omitempty"`
	Stmts []Stmt   `json:"stmts,omitempty"`
	Gate  string   `json:"gate,omitempty"` // parser blocks on this gate first
}

// Table maps query text to parser outcome.
type Table struct {
	Q   map[string]Outcome `json:"q,omitempty"`
	Def *Outcome           `json:"def,omitempty"`
}

func (t Table) Lookup(q string) (Outcome, bool) {
	if o, ok := t.Q[q]; ok {
		return o, true
	}
	if t.Def != nil {
		return *t.Def, true
	}
	return Outcome{}, false
}

// AuthSpec: the validator accepts exactly (User, Pass) for any database,
// fails (returns an error) for password FailPass, rejects everything else.
type AuthSpec struct {
	User     string   `json:"user"`
	Pass     string   `json:"pass"`
	FailPass string   `json:"fail_pass,omitempty"`
	FailErr  *ErrSpec `json:"fail_err,omitempty"`
	// FailTrue: the failing validator returns (ctx, true, err): an error is a failure whatever the boolean says
	FailTrue bool `json:"fail_true,omitempty"`
	// NilCtx: a rejecting / failing validator returns a nil context with its verdict
	NilCtx bool `json:"nil_ctx,omitempty"`
	// PanicPass: the validator panics when it is handed this password (non-empty): no session either
	PanicPass string `json:"panic_pass,omitempty"`
	// PerUser: every user is known, with the password Pass + ":" + user name
	PerUser bool `json:"per_user,omitempty"`
}

func (a *AuthSpec) Verdict(user, pass string) string {
	if a.PanicPass != "" && pass == a.PanicPass {
		return "panic"
	}
	if a.FailErr != nil && pass == a.FailPass {
		return "fail"
	}
	if a.PerUser {
		if pass == a.Pass+":"+user {
			return "accept"
		}
		return "reject"
	}
	if user == a.User && pass == a.Pass {
		return "accept"
	}
	return "reject"
}

type MW struct {
	Fail *ErrSpec `json:"fail,omitempty"`
	// Cancelable: the middleware returns a context the application can cancel (Env.CancelSession, or
	// the "cancelsess" operation of a statement): an application-level "kill this session"
	Cancelable bool `json:"cancelable,omitempty"`
	// NilCtx: the failing middleware returns (nil, err) - the usual way to write it - instead of (ctx, err)
	NilCtx bool `json:"nil_ctx,omitempty"`
	// Deadline: the middleware returns a context with a (far away) deadline - a session lifetime limit:
	// what parsers and statements receive is derived from it and reports that deadline
	Deadline bool `json:"deadline,omitempty"`
}

// Config of the server under test.
type Config struct {
	Auth      *AuthSpec         `json:"auth,omitempty"`
	Params    map[string]string `json:"params,omitempty"`
	HasParams bool              `json:"has_params,omitempty"` // pass a (possibly empty) map instead of nil
	// Earlier: a map handed to an earlier GlobalParameters call, before the one carrying Params (an
	// application that layers defaults and overrides); it stays the application's as well
	Earlier    map[string]string `json:"earlier,omitempty"`
	HasEarlier bool              `json:"has_earlier,omitempty"`
	Version    string            `json:"version,omitempty"`
	Limit      int               `json:"limit,omitempty"`
	SetLimit   bool              `json:"set_limit,omitempty"`
	TLS        string            `json:"tls,omitempty"` // "" | empty | cert | cert13
	MWs        []MW              `json:"mws,omitempty"`
	Term       *MW               `json:"term,omitempty"`
	Table      Table             `json:"table"`
	Retain     bool              `json:"retain,omitempty"`
	NoParse    bool              `json:"no_parse,omitempty"`
	// OptSeed != 0 permutes the order in which the options are handed to NewServer.
	OptSeed int `json:"opt_seed,omitempty"`
	// CustomCaches: statement and portal caches are supplied through the Statements / Portals options.
	CustomCaches bool `json:"custom_caches,omitempty"`
	// StmtCap / PortalCap (with CustomCaches, 0 = unbounded): the user supplied caches hold at most
	// this many names; Set / Bind of a further name returns an error (a bounded cache)
	StmtCap   int `json:"stmt_cap,omitempty"`
	PortalCap int `json:"portal_cap,omitempty"`
	// SharePlans: the parse callback keeps a plan cache: the PreparedStatement objects it built for a
	// query text are handed out again to whoever parses the same text (on any connection)
	SharePlans bool `json:"share_plans,omitempty"`
	// ViaFields: the authentication strategy and the TLS configuration are not passed as options but
	// assigned to the exported Server.Auth / Server.TLSConfig fields after NewServer returned
	ViaFields bool `json:"via_fields,omitempty"`
	// ExtendTypes registers an extra type (OID 99999) through the ExtendTypes option.
	ExtendTypes bool `json:"extend_types,omitempty"`
}

// ParamObs is what a statement function observed for one Bind parameter.
type ParamObs struct {
	Nil     bool   `json:"nil,omitempty"`
	Val     []byte `json:"val"`
	Fmt     int16  `json:"fmt"`
	Scanned any    `json:"-"`
	ScanStr string `json:"scan,omitempty"`
	ScanErr string `json:"scan_err,omitempty"`
}

// CtxObs is what a callback observed in its context.
type CtxObs struct {
	MWKeys   []string          `json:"mw_keys,omitempty"` // value found under middleware key i ("" = absent)
	Client   map[string]string `json:"client,omitempty"`
	Server   map[string]string `json:"server,omitempty"`
	Remote   string            `json:"remote,omitempty"`
	TypeMap  bool              `json:"type_map,omitempty"`
	User     string            `json:"user,omitempty"`
	Done     bool              `json:"done,omitempty"`       // ctx already cancelled while the callback runs
	Deadline bool              `json:"deadline,omitempty"`   // ctx carries a deadline
	Stale    int               `json:"stale_live,omitempty"` // contexts of earlier commands that are not yet Done
}

// Event is one entry of the callback trace.
type Event struct {
	At   int64  `json:"at"`
	Conn int    `json:"conn"`
	K    string `json:"k"` // validate|mw|parse|stmt|op|stmt.end|terminate|copy.start|copy.read|copy.row|gate|panic
	Q    string `json:"q,omitempty"`
	ID   string `json:"id,omitempty"`
	Idx  int    `json:"idx,omitempty"`
	Op   int    `json:"op,omitempty"`
	OpK  string `json:"opk,omitempty"`

	IsErr bool   `json:"is_err,omitempty"`
	Err   string `json:"err,omitempty"`
	EOF   bool   `json:"eof,omitempty"`

	Written uint64 `json:"written,omitempty"`
	Out0    int    `json:"out0,omitempty"`
	Out1    int    `json:"out1,omitempty"`

	Params []ParamObs `json:"params,omitempty"`
	User   string     `json:"user,omitempty"`
	DB     string     `json:"db,omitempty"`
	Pass   string     `json:"pass,omitempty"`
	Data   []byte     `json:"data,omitempty"`
	Row    []any      `json:"row,omitempty"`
	NPar   int        `json:"npar,omitempty"`
	Ctx    *CtxObs    `json:"ctx,omitempty"`
	Panic  string     `json:"panic,omitempty"`
}

// Retained is a zero-copy value kept by a callback together with a private copy.
type Retained struct {
	What  string
	Conn  int
	At    int64
	Str   string
	Bytes []byte
	IsStr bool
	Copy  string
	// Params: the parameter list a statement function was handed, kept as it is (the slice, not copies
	// of its elements); ParamCopies: value and format of every element on receipt
	Params      []wire.Parameter
	ParamCopies []string
}

type capturedCtx struct {
	conn int
	ctx  context.Context
}

type mwKey int

// PanicRec is a panic that escaped a connection goroutine (verif hook).
type PanicRec struct {
	Value string
	Stack string
}

// Env is one server under test plus its instrumentation.
type Env struct {
	Cfg   Config
	Clock *memnet.Clock
	L     *memnet.Listener
	Srv   *wire.Server

	mu         sync.Mutex
	trace      []Event
	conns      map[string]*memnet.Conn
	retained   []Retained
	ctxs       []capturedCtx
	gates      map[string]chan struct{}
	cancels    map[int][]context.CancelFunc
	plans      map[string]wire.PreparedStatements
	closeHooks int
	panics     []PanicRec

	serveDone   chan error
	stopOnce    sync.Once
	stopErr     error
	stopOK      bool
	UserMap     wire.Parameters // the map handed to GlobalParameters
	EarlierMap  wire.Parameters
	earlierCopy map[string]string
	userCopy    map[string]string
}

var (
	hookOnce sync.Once
	curEnv   *Env
	curMu    sync.Mutex
	// PointFn is the schedule-point callback (C16); nil = none.
	PointFn func(name string)
)

func installHooks() {
	hookOnce.Do(func() {
		wire.SetVerifHooks(&wire.VerifHooks{
			Panic: func(v any, stack []byte) {
				if _, ok := v.(ValidatorPanic); ok {
					// the password validator of the case panicked on purpose; that the connection goroutine
					// dies of it is what the library does today and not what any property is about. (The
					// hook runs after the connection was closed, possibly when the next case has begun.)
					return
				}
				curMu.Lock()
				e := curEnv
				curMu.Unlock()
				if e != nil {
					e.mu.Lock()
					e.panics = append(e.panics, PanicRec{Value: fmt.Sprint(v), Stack: string(stack)})
					e.mu.Unlock()
				}
			},
			Point: func(name string) {
				curMu.Lock()
				f := PointFn
				curMu.Unlock()
				if f != nil {
					f(name)
				}
			},
		})
	})
}

// SetPointFn installs the schedule point callback.
func SetPointFn(f func(string)) {
	curMu.Lock()
	PointFn = f
	curMu.Unlock()
}

var (
	certOnce sync.Once
	theCert  tls.Certificate
)

// Cert returns a process-wide self-signed certificate.
func Cert() tls.Certificate {
	certOnce.Do(func() {
		key, err := ecdsa.GenerateKey(elliptic.P256(), rand.Reader)
		if err != nil {
			panic(err)
		}
		tmpl := &x509.Certificate{
			SerialNumber: big.NewInt(1),
			Subject:      pkix.Name{CommonName: "memnet"},
			NotBefore:    time.Now().Add(-time.Hour),
			NotAfter:     time.Now().Add(240 * time.Hour),
			KeyUsage:     x509.KeyUsageDigitalSignature,
			ExtKeyUsage:  []x509.ExtKeyUsage{x509.ExtKeyUsageServerAuth},
			DNSNames:     []string{"memnet"},
		}
		der, err := x509.CreateCertificate(rand.Reader, tmpl, tmpl, &key.PublicKey, key)
		if err != nil {
			panic(err)
		}
		theCert = tls.Certificate{Certificate: [][]byte{der}, PrivateKey: key}
	})
	return theCert
}

var quietLogger = slog.New(slog.NewTextHandler(io.Discard, &slog.HandlerOptions{Level: slog.Level(100)}))

// Start builds the server for cfg and starts serving on an in-memory listener.
func Start(cfg Config) *Env {
	installHooks()
	e := &Env{Cfg: cfg, Clock: &memnet.Clock{}, conns: map[string]*memnet.Conn{}, gates: map[string]chan struct{}{}}
	e.L = memnet.NewListener(e.Clock)
	curMu.Lock()
	curEnv = e
	curMu.Unlock()

	// options are collected as (key, option); cfg.OptSeed != 0 permutes them (the relative order of the
	// session middlewares is part of their meaning and is kept)
	type opt struct {
		mw bool
		fn wire.OptionFn
	}
	opts0 := []opt{{fn: wire.Logger(quietLogger)}}
	if cfg.SetLimit {
		opts0 = append(opts0, opt{fn: wire.MessageBufferSize(cfg.Limit)})
	}
	if cfg.HasParams || len(cfg.Params) > 0 {
		e.UserMap = wire.Parameters{}
		e.userCopy = map[string]string{}
		for k, v := range cfg.Params {
			e.UserMap[wire.ParameterStatus(k)] = v
			e.userCopy[k] = v
		}
		main := wire.GlobalParameters(e.UserMap)
		if cfg.HasEarlier {
			e.EarlierMap = wire.Parameters{}
			e.earlierCopy = map[string]string{}
			for k, v := range cfg.Earlier {
				e.EarlierMap[wire.ParameterStatus(k)] = v
				e.earlierCopy[k] = v
			}
			first := wire.GlobalParameters(e.EarlierMap)
			opts0 = append(opts0, opt{fn: func(s *wire.Server) error {
				if err := first(s); err != nil {
					return err
				}
				return main(s)
			}})
		} else {
			opts0 = append(opts0, opt{fn: main})
		}
	}
	if cfg.Version != "" {
		opts0 = append(opts0, opt{fn: wire.Version(cfg.Version)})
	}
	tlsKind := cfg.TLS
	if cfg.ViaFields {
		cfg.TLS = "" // (assigned to the field below)
	}
	switch cfg.TLS {
	case "empty":
		opts0 = append(opts0, opt{fn: wire.TLSConfig(&tls.Config{})})
	case "cert":
		opts0 = append(opts0, opt{fn: wire.TLSConfig(&tls.Config{Certificates: []tls.Certificate{Cert()}, MinVersion: tls.VersionTLS12})})
	case "cert13":
		opts0 = append(opts0, opt{fn: wire.TLSConfig(&tls.Config{Certificates: []tls.Certificate{Cert()}, MinVersion: tls.VersionTLS13})})
	}
	if cfg.Auth != nil && !cfg.ViaFields {
		opts0 = append(opts0, opt{fn: wire.SessionAuthStrategy(wire.ClearTextPassword(e.validate))})
	}
	for i := range cfg.MWs {
		opts0 = append(opts0, opt{mw: true, fn: wire.SessionMiddleware(e.middleware(i))})
	}
	if cfg.Term != nil {
		opts0 = append(opts0, opt{fn: wire.TerminateConn(e.terminate)})
	}
	// a connection-close hook is always configured (the pinned library accepts the option and never
	// calls the hook; a library that does must hand it a usable context): it only uses the library's
	// own context accessors and records nothing
	opts0 = append(opts0, opt{fn: wire.CloseConn(func(ctx context.Context) error {
		_ = wire.RemoteAddress(ctx)
		_ = wire.ClientParameters(ctx)
		_ = wire.ServerParameters(ctx)
		_ = wire.AuthenticatedUsername(ctx)
		_ = wire.TypeMap(ctx)
		e.mu.Lock()
		e.closeHooks++
		e.mu.Unlock()
		return nil
	})})
	if cfg.CustomCaches {
		// user supplied cache factories (thin wrappers around the default caches, implementing the optional closers too)
		opts0 = append(opts0, opt{fn: wire.Statements(func() wire.StatementCache {
			return &stmtCache{inner: &wire.DefaultStatementCache{}, cap: cfg.StmtCap, names: map[string]bool{}}
		})})
		opts0 = append(opts0, opt{fn: wire.Portals(func() wire.PortalCache {
			return &portalCache{inner: &wire.DefaultPortalCache{}, cap: cfg.PortalCap, names: map[string]bool{}}
		})})
	}
	if cfg.ExtendTypes {
		// a user registered type (OID 99999, text codec) must be available on every connection
		opts0 = append(opts0, opt{fn: wire.ExtendTypes(func(m *pgtype.Map) {
			m.RegisterType(&pgtype.Type{Name: "verif_custom", OID: 99999, Codec: pgtype.TextCodec{}})
		})})
	}
	if cfg.OptSeed != 0 {
		// deterministic permutation (xorshift) that keeps the middlewares in registration order
		x := uint64(cfg.OptSeed)*2654435761 + 1
		var mws []opt
		for _, o := range opts0 {
			if o.mw {
				mws = append(mws, o)
			}
		}
		for i := len(opts0) - 1; i > 0; i-- {
			x ^= x << 13
			x ^= x >> 7
			x ^= x << 17
			j := int(x % uint64(i+1))
			opts0[i], opts0[j] = opts0[j], opts0[i]
		}
		k := 0
		for i := range opts0 {
			if opts0[i].mw {
				opts0[i] = mws[k]
				k++
			}
		}
	}
	var opts []wire.OptionFn
	for _, o := range opts0 {
		opts = append(opts, o.fn)
	}
	var parse wire.ParseFn
	if !cfg.NoParse {
		parse = e.parse
	}
	srv, err := wire.NewServer(parse, opts...)
	if err != nil {
		panic(err)
	}
	if cfg.ViaFields {
		if cfg.Auth != nil {
			srv.Auth = wire.ClearTextPassword(e.validate)
		}
		switch tlsKind {
		case "empty":
			srv.TLSConfig = &tls.Config{}
		case "cert":
			srv.TLSConfig = &tls.Config{Certificates: []tls.Certificate{Cert()}, MinVersion: tls.VersionTLS12}
		case "cert13":
			srv.TLSConfig = &tls.Config{Certificates: []tls.Certificate{Cert()}, MinVersion: tls.VersionTLS13}
		}
	}
	e.Srv = srv
	e.serveDone = make(chan error, 1)
	go func() { e.serveDone <- srv.Serve(e.L) }()
	return e
}

// Dial opens a connection to the server.
func (e *Env) Dial() *memnet.Conn {
	c := e.L.NewConn()
	e.mu.Lock()
	e.conns[c.RemoteAddr().String()] = c
	e.mu.Unlock()
	if err := e.L.Deliver(c); err != nil {
		c.CloseWrite()
	}
	return c
}

// NewConn creates a registered connection without delivering it.
func (e *Env) NewConn() *memnet.Conn {
	c := e.L.NewConn()
	e.mu.Lock()
	e.conns[c.RemoteAddr().String()] = c
	e.mu.Unlock()
	return c
}

// Stop closes the server and waits for Serve to return (guarded).
func (e *Env) Stop() (serveErr error, ok bool) {
	e.stopOnce.Do(func() { e.stopErr, e.stopOK = e.stop() })
	return e.stopErr, e.stopOK
}

func (e *Env) stop() (serveErr error, ok bool) {
	// end every client connection so that the per-connection goroutines (and
	// their read buffers, 16 MiB each at the default limit) are released
	e.mu.Lock()
	for _, cancel := range e.cancels[-1] {
		cancel() // deadline contexts handed out by middlewares
	}
	for _, c := range e.conns {
		c.CloseWrite()
	}
	for _, g := range e.gates {
		select {
		case <-g:
		default:
			close(g)
		}
	}
	e.mu.Unlock()
	done := make(chan struct{})
	go func() { _ = e.Srv.Close(); close(done) }()
	select {
	case <-done:
	case <-time.After(20 * time.Second):
		return nil, false
	}
	select {
	case err := <-e.serveDone:
		return err, true
	case <-time.After(20 * time.Second):
		return nil, false
	}
}

// ServeDone exposes the channel on which Serve's return value arrives.
func (e *Env) ServeDone() <-chan error { return e.serveDone }

func (e *Env) Trace() []Event {
	e.mu.Lock()
	defer e.mu.Unlock()
	return append([]Event(nil), e.trace...)
}

// TraceOf returns the events of one connection.
func (e *Env) TraceOf(conn int) []Event {
	var out []Event
	for _, ev := range e.Trace() {
		if ev.Conn == conn {
			out = append(out, ev)
		}
	}
	return out
}

func (e *Env) Panics() []PanicRec {
	e.mu.Lock()
	defer e.mu.Unlock()
	return append([]PanicRec(nil), e.panics...)
}

func (e *Env) Retained() []Retained {
	e.mu.Lock()
	defer e.mu.Unlock()
	return append([]Retained(nil), e.retained...)
}

// UserMapIntact reports whether the map handed to GlobalParameters still
// equals the private copy taken at Start.
func (e *Env) UserMapIntact() (bool, string) {
	if e.userCopy == nil {
		return true, ""
	}
	e.mu.Lock()
	defer e.mu.Unlock()
	if e.earlierCopy != nil {
		if len(e.EarlierMap) != len(e.earlierCopy) {
			return false, fmt.Sprintf("the map of the earlier GlobalParameters call has %d entries, had %d: %v", len(e.EarlierMap), len(e.earlierCopy), e.EarlierMap)
		}
		for k, v := range e.earlierCopy {
			if got, ok := e.EarlierMap[wire.ParameterStatus(k)]; !ok || got != v {
				return false, fmt.Sprintf("earlier map key %q: %q (present=%v), was %q", k, got, ok, v)
			}
		}
	}
	if len(e.UserMap) != len(e.userCopy) {
		return false, fmt.Sprintf("user map has %d entries, had %d: %v", len(e.UserMap), len(e.userCopy), e.UserMap)
	}
	for k, v := range e.userCopy {
		if got, ok := e.UserMap[wire.ParameterStatus(k)]; !ok || got != v {
			return false, fmt.Sprintf("user map key %q: %q (present=%v), was %q", k, got, ok, v)
		}
	}
	return true, ""
}

// Gate returns the named gate channel (created on demand); closing it
// releases every handler blocked on it.
func (e *Env) Gate(name string) chan struct{} {
	e.mu.Lock()
	defer e.mu.Unlock()
	g, ok := e.gates[name]
	if !ok {
		g = make(chan struct{})
		e.gates[name] = g
	}
	return g
}

// Release opens a gate (idempotent).
func (e *Env) Release(name string) {
	g := e.Gate(name)
	e.mu.Lock()
	defer e.mu.Unlock()
	select {
	case <-g:
	default:
		close(g)
	}
}

// LiveContexts returns how many contexts captured on conn are not Done.
func (e *Env) LiveContexts(conn int) int {
	e.mu.Lock()
	defer e.mu.Unlock()
	n := 0
	for _, c := range e.ctxs {
		if c.conn == conn && c.ctx.Err() == nil {
			n++
		}
	}
	return n
}

func connID(ctx context.Context) int {
	a := wire.RemoteAddress(ctx)
	if a == nil {
		return -1
	}
	s := a.String()
	i := strings.LastIndexByte(s, '-')
	if i < 0 {
		return -1
	}
	n, err := strconv.Atoi(s[i+1:])
	if err != nil {
		return -1
	}
	return n
}

func (e *Env) connOf(ctx context.Context) *memnet.Conn {
	a := wire.RemoteAddress(ctx)
	if a == nil {
		return nil
	}
	e.mu.Lock()
	defer e.mu.Unlock()
	return e.conns[a.String()]
}

func (e *Env) outLen(ctx context.Context) int {
	if c := e.connOf(ctx); c != nil {
		return c.OutLen()
	}
	return -1
}

func (e *Env) add(ev Event) {
	ev.At = e.Clock.Tick()
	e.mu.Lock()
	e.trace = append(e.trace, ev)
	e.mu.Unlock()
}

func errFields(ev *Event, err error) {
	if err != nil {
		ev.IsErr = true
		ev.Err = err.Error()
		ev.EOF = errors.Is(err, io.EOF)
	}
}

func paramsMap(p wire.Parameters) map[string]string {
	if p == nil {
		return nil
	}
	m := make(map[string]string, len(p))
	for k, v := range p {
		m[string(k)] = v
	}
	return m
}

// observe captures the context facts C12/C19 care about. command=true marks
// a per-command callback (parser, statement) whose context takes part in the
// cancellation bookkeeping.
func (e *Env) observe(ctx context.Context, command bool) *CtxObs {
	o := &CtxObs{
		Client:  paramsMap(wire.ClientParameters(ctx)),
		Server:  paramsMap(wire.ServerParameters(ctx)),
		TypeMap: wire.TypeMap(ctx) != nil,
		User:    wire.AuthenticatedUsername(ctx),
		Done:    ctx.Err() != nil,
	}
	_, o.Deadline = ctx.Deadline()
	if a := wire.RemoteAddress(ctx); a != nil {
		o.Remote = a.String()
	}
	for i := range e.Cfg.MWs {
		v, _ := ctx.Value(mwKey(i)).(string)
		o.MWKeys = append(o.MWKeys, v)
	}
	if command {
		id := connID(ctx)
		e.mu.Lock()
		seen := false
		from := 0
		if len(e.ctxs) > 512 {
			from = len(e.ctxs) - 512 // (bounded look-back keeps long sessions linear)
		}
		for _, c := range e.ctxs[from:] {
			if c.conn != id {
				continue
			}
			if c.ctx == ctx {
				seen = true
				continue
			}
			if c.ctx.Err() == nil {
				o.Stale++
			}
		}
		if !seen {
			e.ctxs = append(e.ctxs, capturedCtx{id, ctx})
		}
		e.mu.Unlock()
	}
	return o
}

func (e *Env) retainStr(ctx context.Context, what, s string) {
	if !e.Cfg.Retain {
		return
	}
	e.mu.Lock()
	e.retained = append(e.retained, Retained{What: what, Conn: connID(ctx), At: e.Clock.Now(), Str: s, IsStr: true, Copy: strings.Clone(s)})
	e.mu.Unlock()
}

func (e *Env) retainBytes(ctx context.Context, what string, b []byte) {
	if !e.Cfg.Retain || b == nil {
		return
	}
	e.mu.Lock()
	e.retained = append(e.retained, Retained{What: what, Conn: connID(ctx), At: e.Clock.Now(), Bytes: b, Copy: string(b)})
	e.mu.Unlock()
}

// CheckRetained compares every retained value with its private copy.
func (e *Env) CheckRetained() (int, string) {
	e.mu.Lock()
	defer e.mu.Unlock()
	for i, r := range e.retained {
		if r.Params != nil {
			for j, p := range r.Params {
				if now := fmt.Sprintf("%d:%v:%s", p.Format(), p.Value() == nil, p.Value()); now != r.ParamCopies[j] {
					return len(e.retained), fmt.Sprintf("retained parameter list #%d (conn %d): element %d changed: now %q, was %q", i, r.Conn, j, clip(now), clip(r.ParamCopies[j]))
				}
			}
			continue
		}
		if r.IsStr {
			if r.Str != r.Copy {
				return len(e.retained), fmt.Sprintf("retained %s #%d (conn %d) changed: now %q, was %q", r.What, i, r.Conn, clip(r.Str), clip(r.Copy))
			}
		} else if string(r.Bytes) != r.Copy {
			return len(e.retained), fmt.Sprintf("retained %s #%d (conn %d) changed: now %q, was %q", r.What, i, r.Conn, clip(string(r.Bytes)), clip(r.Copy))
		}
	}
	return len(e.retained), ""
}

func clip(s string) string {
	if len(s) > 80 {
		return s[:80] + "..."
	}
	return s
}

// ---- callbacks ---------------------------------------------------------------

func (e *Env) validate(ctx context.Context, database, username, password string) (context.Context, bool, error) {
	ev := Event{Conn: connID(ctx), K: "validate", User: username, DB: database, Pass: password, Ctx: e.observe(ctx, false)}
	e.retainStr(ctx, "password", password)
	e.retainStr(ctx, "username", username)
	a := e.Cfg.Auth
	switch a.Verdict(username, password) {
	case "panic":
		ev.OpK = "panic"
		e.add(ev)
		panic(ValidatorPanic{})
	case "fail":
		err := a.FailErr.Build()
		errFields(&ev, err)
		e.add(ev)
		if a.NilCtx {
			return nil, a.FailTrue, err
		}
		return ctx, a.FailTrue, err
	case "accept":
		ev.OpK = "accept"
		e.add(ev)
		return ctx, true, nil
	}
	ev.OpK = "reject"
	e.add(ev)
	if a.NilCtx {
		return nil, false, nil
	}
	return ctx, false, nil
}

func (e *Env) middleware(i int) wire.SessionHandler {
	return func(ctx context.Context) (context.Context, error) {
		obs := e.observe(ctx, false)
		for k, v := range wire.ClientParameters(ctx) {
			e.retainStr(ctx, "client-param-key", string(k))
			e.retainStr(ctx, "client-param-value", v)
		}
		prev := ""
		if i > 0 {
			prev, _ = ctx.Value(mwKey(i - 1)).(string)
		}
		ev := Event{Conn: connID(ctx), K: "mw", Idx: i, Ctx: obs, Out0: e.outLen(ctx)}
		if f := e.Cfg.MWs[i].Fail; f != nil {
			err := f.Build()
			errFields(&ev, err)
			e.add(ev)
			if e.Cfg.MWs[i].NilCtx {
				return nil, err
			}
			return ctx, err
		}
		e.add(ev)
		if e.Cfg.MWs[i].Deadline {
			var cancel context.CancelFunc
			ctx, cancel = context.WithDeadline(ctx, time.Now().Add(24*time.Hour))
			e.mu.Lock()
			if e.cancels == nil {
				e.cancels = map[int][]context.CancelFunc{}
			}
			e.cancels[-1] = append(e.cancels[-1], cancel) // released by Stop
			e.mu.Unlock()
		}
		if e.Cfg.MWs[i].Cancelable {
			var cancel context.CancelFunc
			ctx, cancel = context.WithCancel(ctx)
			e.mu.Lock()
			if e.cancels == nil {
				e.cancels = map[int][]context.CancelFunc{}
			}
			e.cancels[connID(ctx)] = append(e.cancels[connID(ctx)], cancel)
			e.mu.Unlock()
		}
		return context.WithValue(ctx, mwKey(i), fmt.Sprintf("%d:%d:%s", i, connID(ctx), prev)), nil
	}
}

// CancelSession cancels the contexts the cancelable middlewares returned for the connection.
func (e *Env) CancelSession(conn int) {
	e.mu.Lock()
	cs := e.cancels[conn]
	e.mu.Unlock()
	for _, c := range cs {
		c()
	}
}

func (e *Env) terminate(ctx context.Context) error {
	// (the hook runs inside the Terminate command: its context is a per-command context like any other)
	ev := Event{Conn: connID(ctx), K: "terminate", Ctx: e.observe(ctx, true)}
	var err error
	if e.Cfg.Term != nil && e.Cfg.Term.Fail != nil {
		err = e.Cfg.Term.Fail.Build()
	}
	errFields(&ev, err)
	e.add(ev)
	return err
}

func (e *Env) waitGate(ctx context.Context, name string) {
	if name == "" {
		return
	}
	e.add(Event{Conn: connID(ctx), K: "gate", ID: name})
	<-e.Gate(name)
}

func (e *Env) parse(ctx context.Context, query string) (stmts wire.PreparedStatements, err error) {
	id := connID(ctx)
	ev := Event{Conn: id, K: "parse", Q: query, Ctx: e.observe(ctx, true), Out0: e.outLen(ctx)}
	defer func() {
		if r := recover(); r != nil {
			e.add(Event{Conn: id, K: "panic", Q: query, Panic: fmt.Sprint(r)})
			err = fmt.Errorf("parser panicked: %v", r)
		}
	}()
	defer func() { e.add(Event{Conn: id, K: "parse.end", Q: query}) }()
	e.retainStr(ctx, "query", query)
	out, ok := e.Cfg.Table.Lookup(query)
	if !ok {
		err := fmt.Errorf("no outcome for query %q", clip(query))
		errFields(&ev, err)
		e.add(ev)
		return nil, err
	}
	if out.Err != nil {
		err := out.Err.Build()
		errFields(&ev, err)
		e.add(ev)
		return nil, err
	}
	ev.Idx = len(out.Stmts)
	e.add(ev)
	e.waitGate(ctx, out.Gate)
	if e.Cfg.SharePlans {
		// (the callback does the same work and records the same events either way; with a cached plan
		// it hands out the objects built for the first caller instead of the fresh ones)
		defer func() {
			if err != nil {
				return
			}
			e.mu.Lock()
			defer e.mu.Unlock()
			if cached, ok := e.plans[query]; ok {
				stmts = cached
				return
			}
			if e.plans == nil {
				e.plans = map[string]wire.PreparedStatements{}
			}
			e.plans[query] = stmts
		}()
	}
	for i := range out.Stmts {
		st := out.Stmts[i]
		cols := make(wire.Columns, len(st.Cols))
		for j, c := range st.Cols {
			cols[j] = wire.Column{Table: c.Table, ID: c.ID, Attr: c.Attr, Name: c.Name, AttrNo: c.AttrNo, Oid: oid.Oid(c.Oid()), Width: c.Width, TypeModifier: c.TypMod}
		}
		var popts []wire.PreparedOptionFn
		if len(st.Cols) > 0 {
			popts = append(popts, wire.WithColumns(cols))
		}
		if st.ParseParams {
			ps := wire.ParseParameters(query)
			e.add(Event{Conn: id, K: "parseparams", Q: query, NPar: len(ps)})
			popts = append(popts, wire.WithParameters(ps))
		} else if st.Params != nil {
			ps := make([]oid.Oid, len(st.Params))
			for j, p := range st.Params {
				ps[j] = oid.Oid(p)
			}
			popts = append(popts, wire.WithParameters(ps))
		}
		stmts = append(stmts, wire.NewStatement(e.stmtFn(query, i, st), popts...))
	}
	return stmts, nil
}

func (e *Env) stmtFn(query string, idx int, st Stmt) wire.PreparedStatementFn {
	return func(ctx context.Context, w wire.DataWriter, params []wire.Parameter) (err error) {
		id := connID(ctx)
		defer func() {
			if r := recover(); r != nil {
				if _, deliberate := r.(DeliberatePanic); deliberate {
					// the "panic" operation: the statement function really panics
					e.add(Event{Conn: id, K: "stmt.end", Q: query, ID: st.ID, Idx: idx, Out1: e.outLen(ctx), IsErr: true})
					panic(r)
				}
				e.add(Event{Conn: id, K: "panic", Q: query, Idx: idx, Panic: fmt.Sprint(r)})
				err = fmt.Errorf("statement panicked: %v", r)
			}
		}()
		ev := Event{Conn: id, K: "stmt", Q: query, ID: st.ID, Idx: idx, NPar: len(params), Ctx: e.observe(ctx, true), Out0: e.outLen(ctx)}
		if e.Cfg.Retain && len(params) > 0 {
			r := Retained{What: "parameter-list", Conn: id, At: e.Clock.Now(), Params: params}
			for _, p := range params {
				r.ParamCopies = append(r.ParamCopies, fmt.Sprintf("%d:%v:%s", p.Format(), p.Value() == nil, p.Value()))
			}
			e.mu.Lock()
			e.retained = append(e.retained, r)
			e.mu.Unlock()
		}
		for i, p := range params {
			v := p.Value()
			po := ParamObs{Nil: v == nil, Val: append([]byte{}, v...), Fmt: int16(p.Format())}
			e.retainBytes(ctx, "param", v)
			if i < len(st.ScanAs) && st.ScanAs[i] != "" {
				got, serr := p.Scan(pgwire.OIDs[st.ScanAs[i]])
				if serr != nil {
					po.ScanErr = serr.Error()
				} else {
					c, cerr := CanonFromGo(st.ScanAs[i], got)
					if cerr != nil {
						po.ScanErr = "harness: " + cerr.Error()
					} else {
						po.Scanned = c
						po.ScanStr = pgwire.ValString(c)
					}
				}
			}
			ev.Params = append(ev.Params, po)
		}
		e.add(ev)
		ret := e.runOps(ctx, w, query, idx, st)
		end := Event{Conn: id, K: "stmt.end", Q: query, ID: st.ID, Idx: idx, Out1: e.outLen(ctx)}
		errFields(&end, ret)
		e.add(end)
		return ret
	}
}

// ValidatorPanic is the value a password validator panics with (AuthSpec.PanicPass).
type ValidatorPanic struct{}

func (ValidatorPanic) String() string { return "verif: password validator panics" }

// DeliberatePanic is the value the "panic" operation panics with.
type DeliberatePanic struct{}

func (DeliberatePanic) String() string { return "verif: statement function panics" }

func (e *Env) runOps(ctx context.Context, w wire.DataWriter, query string, idx int, st Stmt) error {
	id := connID(ctx)
	for i, op := range st.Ops {
		ev := Event{Conn: id, K: "op", Q: query, Idx: idx, Op: i, OpK: op.K, Out0: e.outLen(ctx)}
		switch op.K {
		case "row":
			vals := make([]any, len(op.Vals))
			for j, v := range op.Vals {
				vals[j] = v.Go()
			}
			err := w.Row(vals)
			errFields(&ev, err)
		case "complete":
			errFields(&ev, w.Complete(op.Tag))
		case "empty":
			errFields(&ev, w.Empty())
		case "written":
		case "gate":
			e.waitGate(ctx, op.Gate)
		case "cancelsess":
			e.CancelSession(connID(ctx))
		case "closesrv":
			// Server.Close from another goroutine; the statement goes on once Close has visibly
			// started (the listener was closed) or after a short while (schedule shaping, not an oracle)
			go func() { _ = e.Srv.Close() }()
			for t0 := time.Now(); e.L.CloseCount() == 0 && time.Since(t0) < 50*time.Millisecond; {
				time.Sleep(20 * time.Microsecond)
			}
		case "panic":
			// the statement function panics (the library recovers panics of statements run by Execute
			// and reports them like an error)
			ev.Written = w.Written()
			ev.Out1 = e.outLen(ctx)
			e.add(ev)
			panic(DeliberatePanic{})
		case "ret":
			ev.Written = w.Written()
			ev.Out1 = e.outLen(ctx)
			e.add(ev)
			return op.Err.Build()
		case "copyin":
			ev.Written = w.Written()
			ev.Out1 = e.outLen(ctx)
			stop, err := e.runCopy(ctx, w, &ev, op.Copy)
			if stop {
				return err
			}
			continue
		default:
			panic("unknown op " + op.K)
		}
		ev.Written = w.Written()
		ev.Out1 = e.outLen(ctx)
		e.add(ev)
	}
	return nil
}

func (e *Env) runCopy(ctx context.Context, w wire.DataWriter, ev *Event, cs *CopySpec) (stop bool, ret error) {
	id := ev.Conn
	cr, err := w.CopyIn(wire.FormatCode(cs.Format))
	ev.K = "copy.start"
	ev.Out1 = e.outLen(ctx)
	errFields(ev, err)
	e.add(*ev)
	if err != nil {
		return true, err
	}
	var br *wire.BinaryCopyReader
	if cs.Rows {
		br, err = wire.NewBinaryColumnReader(ctx, cr)
		if err != nil {
			e.add(Event{Conn: id, K: "copy.row", IsErr: true, Err: "NewBinaryColumnReader: " + err.Error()})
			return true, err
		}
	}
	cols := w.Columns()
	for n := 0; cs.MaxReads < 0 || n < cs.MaxReads; n++ {
		var rerr error
		re := Event{Conn: id, K: "copy.read", Q: ev.Q, Idx: ev.Idx, Op: n, Out0: e.outLen(ctx)}
		if br != nil {
			re.K = "copy.row"
			var row []any
			row, rerr = br.Read(ctx)
			if rerr == nil {
				re.Row = make([]any, len(row))
				for j, g := range row {
					typ := ""
					if j < len(cols) {
						typ = pgwire.TypeOfOID(uint32(cols[j].Oid))
					}
					c, cerr := CanonFromGo(typ, g)
					if cerr != nil {
						c = "harness: " + cerr.Error()
					}
					re.Row[j] = c
				}
			}
		} else {
			rerr = cr.Read()
			if rerr == nil {
				re.Data = append([]byte{}, cr.Msg...)
				e.retainBytes(ctx, "copydata", cr.Msg)
			}
		}
		re.Out1 = e.outLen(ctx)
		errFields(&re, rerr)
		e.add(re)
		if rerr == nil {
			continue
		}
		if errors.Is(rerr, io.EOF) {
			return false, nil
		}
		switch cs.OnAbort {
		case "own":
			return true, cs.Own.Build()
		case "swallow":
			return false, nil
		}
		return true, rerr
	}
	if cs.StopErr != nil {
		return true, cs.StopErr.Build()
	}
	return false, nil
}

// SortedKeys is a helper for deterministic iteration.
func SortedKeys[V any](m map[string]V) []string {
	ks := make([]string, 0, len(m))
	for k := range m {
		ks = append(ks, k)
	}
	sort.Strings(ks)
	return ks
}

// ---- user supplied caches (thin wrappers) ------------------------------------

type stmtCache struct {
	inner *wire.DefaultStatementCache
	cap   int
	names map[string]bool // one cache per connection, used by its goroutine only
}

// ErrCacheFull is what the bounded user caches return.
var ErrCacheFull = errors.New("verif: the cache is full")

func (c *stmtCache) Set(ctx context.Context, name string, fn *wire.PreparedStatement) error {
	if c.cap > 0 && !c.names[name] && len(c.names) >= c.cap {
		return ErrCacheFull
	}
	c.names[strings.Clone(name)] = true
	return c.inner.Set(ctx, name, fn)
}
func (c *stmtCache) Get(ctx context.Context, name string) (*wire.Statement, error) {
	return c.inner.Get(ctx, name)
}
func (c *stmtCache) Close(ctx context.Context, name string) error {
	delete(c.names, name)
	return c.inner.Close(ctx, name)
}

type portalCache struct {
	inner *wire.DefaultPortalCache
	cap   int
	names map[string]bool
}

func (c *portalCache) Bind(ctx context.Context, name string, st *wire.Statement, params []wire.Parameter, columns []wire.FormatCode) error {
	if c.cap > 0 && !c.names[name] && len(c.names) >= c.cap {
		return ErrCacheFull
	}
	c.names[strings.Clone(name)] = true
	return c.inner.Bind(ctx, name, st, params, columns)
}
func (c *portalCache) Get(ctx context.Context, name string) (*wire.Portal, error) {
	return c.inner.Get(ctx, name)
}
func (c *portalCache) Execute(ctx context.Context, name string, reader *buffer.Reader, writer *buffer.Writer) error {
	return c.inner.Execute(ctx, name, reader, writer)
}
func (c *portalCache) Close(ctx context.Context, name string) error {
	delete(c.names, name)
	return c.inner.Close(ctx, name)
}
