package script

import (
	"fmt"
	"os"
	"strconv"
	"time"

	"verif/harness/memnet"
	"verif/harness/pgwire"
)

// CMsg is a client message as data.
type CMsg struct {
	K      string    `json:"k"`                // Q P B D E C H S X d c f raw
	Name   string    `json:"name,omitempty"`   // statement name (P, B, D/C kind S)
	Portal string    `json:"portal,omitempty"` // portal name (B, E, D/C kind P)
	Query  string    `json:"query,omitempty"`
	Kind   byte      `json:"kind,omitempty"` // 'S' | 'P' for D and C
	OIDs   []uint32  `json:"oids,omitempty"`
	PFmts  []int16   `json:"pfmts,omitempty"`
	RFmts  []int16   `json:"rfmts,omitempty"`
	Params []*[]byte `json:"params,omitempty"` // nil entry = NULL
	Limit  uint32    `json:"limit,omitempty"`
	Data   []byte    `json:"data,omitempty"` // d payload, f message, raw bytes
	Tail   []byte    `json:"tail,omitempty"` // surplus bytes appended inside the frame
	Over   bool      `json:"over,omitempty"` // raw message whose declared body exceeds the limit
	// MayClose (with Over): the message is invalid in a way a server may also treat as fatal - an
	// ErrorResponse at most, then the connection is closed - instead of skipping it
	MayClose bool `json:"may_close,omitempty"`
	// AltFail: a message the property does not settle (a Bind whose number of format codes is neither
	// 0, 1 nor the number of values): served, or refused like any failing message - one ErrorResponse,
	// then discarding up to Sync - but never silence or a dropped connection
	AltFail bool `json:"alt_fail,omitempty"`
}

func (m CMsg) body() (byte, []byte) {
	switch m.K {
	case "Q":
		return 'Q', append([]byte(m.Query), 0)
	case "P":
		return 'P', pgwire.ParseBody(m.Name, m.Query, m.OIDs)
	case "B":
		ps := make([][]byte, len(m.Params))
		for i, p := range m.Params {
			if p != nil {
				ps[i] = *p
				if ps[i] == nil {
					ps[i] = []byte{}
				}
			}
		}
		return 'B', pgwire.BindBody(m.Portal, m.Name, m.PFmts, ps, m.RFmts)
	case "D", "C":
		n := m.Name
		if m.Kind == 'P' {
			n = m.Portal
		}
		return m.K[0], append([]byte{m.Kind}, append([]byte(n), 0)...)
	case "E":
		b := append([]byte(m.Portal), 0)
		return 'E', append(b, byte(m.Limit>>24), byte(m.Limit>>16), byte(m.Limit>>8), byte(m.Limit))
	case "H", "S", "X", "c":
		return m.K[0], nil
	case "d":
		return 'd', m.Data
	case "f":
		return 'f', append(append([]byte{}, m.Data...), 0)
	}
	panic("CMsg kind " + m.K)
}

// Bytes renders the message.
func (m CMsg) Bytes() []byte {
	if m.K == "raw" {
		return append([]byte{}, m.Data...)
	}
	t, b := m.body()
	return pgwire.Msg(t, append(b, m.Tail...))
}

func (m CMsg) String() string {
	switch m.K {
	case "Q":
		return fmt.Sprintf("Q(%q)", clip(m.Query))
	case "P":
		return fmt.Sprintf("P(%q,%q)", m.Name, clip(m.Query))
	case "B":
		return fmt.Sprintf("B(portal=%q,stmt=%q,n=%d)", m.Portal, m.Name, len(m.Params))
	case "D", "C":
		n := m.Name
		if m.Kind == 'P' {
			n = m.Portal
		}
		return fmt.Sprintf("%s(%c,%q)", m.K, m.Kind, n)
	case "E":
		return fmt.Sprintf("E(%q)", m.Portal)
	case "d":
		return fmt.Sprintf("d(%d bytes)", len(m.Data))
	case "f":
		return fmt.Sprintf("f(%q)", clip(string(m.Data)))
	case "raw":
		return fmt.Sprintf("raw(%q)", clip(string(m.Data)))
	}
	return m.K
}

// Guard is the wall-clock guard used for quiescence waits; it only turns a
// wedged server into an "inconclusive" or (C04) a diagnosed wedge.
var Guard = guardFromEnv()

func guardFromEnv() time.Duration {
	if ms, err := strconv.Atoi(os.Getenv("VERIF_GUARD_MS")); err == nil && ms > 0 {
		return time.Duration(ms) * time.Millisecond
	}
	return 20 * time.Second
}

// Sess drives one client connection.
type Sess struct {
	Env  *Env
	C    *memnet.Conn
	off  int // parse offset into the server output
	Msgs []pgwire.BMsg
}

// Step is the reply attributed to one client send.
type Step struct {
	State memnet.State
	Msgs  []pgwire.BMsg
	Raw   []byte
	Err   error // grammar error in the newly received bytes
}

func (e *Env) NewSess() *Sess { return &Sess{Env: e, C: e.Dial()} }

// Send sends bytes and waits for quiescence; it returns the newly received,
// strictly parsed messages. Bytes that do not yet form a complete message stay
// pending (Err reports a grammar error other than truncation at the tail).
func (s *Sess) Send(b []byte) Step {
	s.C.Send(b)
	return s.Collect()
}

// Collect waits for quiescence and parses what arrived.
func (s *Sess) Collect() Step {
	st := s.C.WaitIdle(Guard)
	out := s.C.Output()
	step := Step{State: st, Raw: append([]byte{}, out[s.off:]...)}
	for s.off < len(out) {
		m, n, err := pgwire.ParseOne(out[s.off:])
		if err != nil {
			step.Err = fmt.Errorf("server stream offset %d: %w", s.off, err)
			break
		}
		s.off += n
		step.Msgs = append(step.Msgs, m)
		s.Msgs = append(s.Msgs, m)
	}
	return step
}

// SkipByte consumes one raw (non-message) byte of server output, e.g. the
// SSL reply; returns false when not available.
func (s *Sess) SkipByte() (byte, bool) {
	out := s.C.Output()
	if s.off >= len(out) {
		return 0, false
	}
	b := out[s.off]
	s.off++
	return b, true
}

// Startup sends a startup packet (and the password if pass != nil) and
// collects up to quiescence.
func (s *Sess) Startup(pairs [][2]string, pass *string) Step {
	b := pgwire.Startup(pairs)
	if pass != nil {
		b = append(b, pgwire.Password(*pass)...)
	}
	return s.Send(b)
}

// Ready reports whether msgs ends in ReadyForQuery.
func Ready(msgs []pgwire.BMsg) bool {
	return len(msgs) > 0 && msgs[len(msgs)-1].Type == 'Z'
}

// DefaultPairs is a plain startup parameter list.
func DefaultPairs(user string) [][2]string {
	return [][2]string{{"user", user}, {"database", "db"}}
}

// Conn returns the underlying in-memory connection.
func (s *Sess) Conn() *memnet.Conn { return s.C }

// Session is what Sess (plaintext) and TLSSess have in common.
type Session interface {
	Send([]byte) Step
	Startup(pairs [][2]string, pass *string) Step
	Conn() *memnet.Conn
}
