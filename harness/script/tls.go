package script

import (
	"crypto/tls"
	"errors"
	"fmt"
	"sync"
	"time"

	"verif/harness/memnet"
	"verif/harness/pgwire"
)

// TLSSess drives one client connection through SSLRequest + TLS handshake,
// then message by message with quiescence like Sess.
type TLSSess struct {
	Env  *Env
	C    *memnet.Conn
	tc   *tls.Conn
	mu   sync.Mutex
	buf  []byte
	off  int
	Msgs []pgwire.BMsg
	done chan struct{} // closed when the decrypting reader goroutine has ended
}

// NewTLSSess negotiates TLS on a fresh connection.
func (e *Env) NewTLSSess() (*TLSSess, error) {
	s := &TLSSess{Env: e, C: e.Dial()}
	s.C.Send(pgwire.SSLRequest())
	if !s.C.WaitOutput(1, Guard) {
		return nil, errors.New("no reply to SSLRequest")
	}
	ce := s.C.ClientEnd()
	one := make([]byte, 1)
	if _, err := ce.Read(one); err != nil || one[0] != 'S' {
		return nil, fmt.Errorf("SSLRequest answered %q (%v)", one, err)
	}
	s.tc = tls.Client(ce, &tls.Config{InsecureSkipVerify: true, MinVersion: tls.VersionTLS12})
	hs := make(chan error, 1)
	go func() { hs <- s.tc.Handshake() }()
	select {
	case err := <-hs:
		if err != nil {
			return nil, err
		}
	case <-time.After(Guard):
		return nil, errors.New("TLS handshake: guard")
	}
	s.done = make(chan struct{})
	go func() {
		defer close(s.done)
		b := make([]byte, 16384)
		for {
			n, err := s.tc.Read(b)
			s.mu.Lock()
			s.buf = append(s.buf, b[:n]...)
			s.mu.Unlock()
			if err != nil {
				return
			}
		}
	}()
	return s, nil
}

// Send writes b inside the TLS session and collects the decrypted replies at quiescence.
func (s *TLSSess) Send(b []byte) Step {
	if _, err := s.tc.Write(b); err != nil {
		return Step{State: memnet.Closed, Err: nil}
	}
	st := s.C.WaitIdle(Guard)
	s.C.WaitClientDrained(Guard)
	if closed, _ := s.C.ServerClosed(); closed {
		// the raw bytes are consumed; the reader goroutine ends once it has handed over the last record
		select {
		case <-s.done:
		case <-time.After(Guard):
		}
	}
	s.mu.Lock()
	out := append([]byte{}, s.buf...)
	s.mu.Unlock()
	step := Step{State: st, Raw: append([]byte{}, out[s.off:]...)}
	for s.off < len(out) {
		m, n, err := pgwire.ParseOne(out[s.off:])
		if err != nil {
			step.Err = fmt.Errorf("decrypted server stream offset %d: %w", s.off, err)
			break
		}
		s.off += n
		step.Msgs = append(step.Msgs, m)
		s.Msgs = append(s.Msgs, m)
	}
	return step
}

// Startup sends a startup packet (and the password if pass != nil) inside TLS.
func (s *TLSSess) Startup(pairs [][2]string, pass *string) Step {
	b := pgwire.Startup(pairs)
	if pass != nil {
		b = append(b, pgwire.Password(*pass)...)
	}
	return s.Send(b)
}

// Conn returns the underlying in-memory connection.
func (s *TLSSess) Conn() *memnet.Conn { return s.C }
