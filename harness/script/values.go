// Package script holds the data-only description of a generated case
// (server configuration, handler programs, client messages) and the
// interpreter that plugs those programs into the library's public callbacks
// while recording a callback trace.
package script

import (
	"context"
	"errors"
	"fmt"
	"io"
	"math"
	"net"
	"time"

	"github.com/jackc/pgx/v5/pgtype"
	"github.com/jeroenrinzema/psql-wire/codes"
	psqlerr "github.com/jeroenrinzema/psql-wire/errors"

	"verif/harness/pgwire"
)

// Val is a generated, typed SQL value together with the Go representation a
// handler passes to the library.
type Val struct {
	T    string `json:"t"`              // type name (pgwire.OIDs)
	Rep  string `json:"rep,omitempty"`  // native | int | ptr | pgtype
	Null string `json:"null,omitempty"` // "" | nil | nilptr | invalid
	B    bool   `json:"b,omitempty"`
	I    int64  `json:"i,omitempty"`
	F    uint64 `json:"f,omitempty"` // float bits (float4: float32 bits)
	S    string `json:"s,omitempty"`
	// SB (text-like types): the string value as raw bytes, used instead of S when non-nil - strings a
	// handler writes need not be valid UTF-8 (legacy encodings, binary junk in a text column) and JSON
	// cannot carry them in S
	SB  []byte `json:"sb,omitempty"`
	Y   []byte `json:"y,omitempty"`
	Bad bool   `json:"bad,omitempty"` // a Go value no codec can encode
	// Zone (date, timestamp, timestamptz): the time.Time the handler writes lives in a fixed zone this
	// many seconds east of UTC. A zone-less type carries the value's own calendar date and clock
	// time (what pgtype encodes); timestamptz carries the instant.
	Zone int `json:"zone,omitempty"`
}

func (v Val) inZone(u time.Time, instant bool) time.Time {
	if v.Zone == 0 {
		return u
	}
	loc := time.FixedZone("verif", v.Zone)
	if instant {
		return u.In(loc)
	}
	return time.Date(u.Year(), u.Month(), u.Day(), u.Hour(), u.Minute(), u.Second(), u.Nanosecond(), loc)
}

func (v Val) IsNull() bool { return v.Null != "" }

// Canon returns the canonical value (see pgwire) or nil for NULL.
func (v Val) Canon() any {
	if v.IsNull() {
		return nil
	}
	switch v.T {
	case "bool":
		return v.B
	case "int2", "int4", "int8", "oid", "date", "timestamp", "timestamptz":
		return v.I
	case "float4":
		return math.Float32frombits(uint32(v.F))
	case "float8":
		return math.Float64frombits(v.F)
	case "text", "varchar", "name", "json", "jsonb", "bpchar", "custom":
		if v.SB != nil {
			return string(v.SB)
		}
		return v.S
	case "bytea":
		if v.Y == nil {
			return []byte{}
		}
		return v.Y
	case "uuid":
		var u [16]byte
		copy(u[:], v.Y)
		return u
	}
	panic("script.Val.Canon: type " + v.T)
}

var dayZero = time.Date(2000, 1, 1, 0, 0, 0, 0, time.UTC)

func dateOf(days int64) time.Time { return dayZero.AddDate(0, 0, int(days)) }
func tsOf(us int64) time.Time {
	days := us / 86400000000
	rem := us % 86400000000
	if rem < 0 {
		rem += 86400000000
		days--
	}
	return dayZero.AddDate(0, 0, int(days)).Add(time.Duration(rem) * time.Microsecond)
}

// BadValue is a Go value no pgtype codec can encode.
var BadValue = make(chan int)

func ptr[T any](x T) *T { return &x }

// Go returns the Go value a handler would pass to DataWriter.Row.
func (v Val) Go() any {
	if v.Bad {
		return BadValue
	}
	switch v.Null {
	case "nil":
		return nil
	case "nilptr":
		switch v.T {
		case "bool":
			return (*bool)(nil)
		case "int2":
			return (*int16)(nil)
		case "int4":
			return (*int32)(nil)
		case "int8":
			return (*int64)(nil)
		case "oid":
			return (*uint32)(nil)
		case "float4":
			return (*float32)(nil)
		case "float8":
			return (*float64)(nil)
		case "bytea":
			return (*[]byte)(nil)
		case "uuid":
			return (*[16]byte)(nil)
		case "date", "timestamp", "timestamptz":
			return (*time.Time)(nil)
		}
		return (*string)(nil)
	case "invalid":
		switch v.T {
		case "bool":
			return pgtype.Bool{}
		case "int2":
			return pgtype.Int2{}
		case "int4":
			return pgtype.Int4{}
		case "int8":
			return pgtype.Int8{}
		case "oid":
			return pgtype.Uint32{}
		case "float4":
			return pgtype.Float4{}
		case "float8":
			return pgtype.Float8{}
		case "uuid":
			return pgtype.UUID{}
		case "date":
			return pgtype.Date{}
		case "timestamp":
			return pgtype.Timestamp{}
		case "timestamptz":
			return pgtype.Timestamptz{}
		case "bytea":
			return (*[]byte)(nil)
		}
		return pgtype.Text{}
	}
	c := v.Canon()
	switch v.T {
	case "bool":
		x := c.(bool)
		switch v.Rep {
		case "ptr":
			return &x
		case "pgtype":
			return pgtype.Bool{Bool: x, Valid: true}
		}
		return x
	case "int2":
		x := int16(c.(int64))
		switch v.Rep {
		case "ptr":
			return &x
		case "pgtype":
			return pgtype.Int2{Int16: x, Valid: true}
		case "int":
			return int(x)
		}
		return x
	case "int4":
		x := int32(c.(int64))
		switch v.Rep {
		case "ptr":
			return &x
		case "pgtype":
			return pgtype.Int4{Int32: x, Valid: true}
		case "int":
			return int(x)
		}
		return x
	case "int8":
		x := c.(int64)
		switch v.Rep {
		case "ptr":
			return &x
		case "pgtype":
			return pgtype.Int8{Int64: x, Valid: true}
		case "int":
			return int(x)
		}
		return x
	case "oid":
		x := uint32(c.(int64))
		switch v.Rep {
		case "ptr":
			return &x
		case "pgtype":
			return pgtype.Uint32{Uint32: x, Valid: true}
		}
		return x
	case "float4":
		x := c.(float32)
		switch v.Rep {
		case "ptr":
			return &x
		case "pgtype":
			return pgtype.Float4{Float32: x, Valid: true}
		}
		return x
	case "float8":
		x := c.(float64)
		switch v.Rep {
		case "ptr":
			return &x
		case "pgtype":
			return pgtype.Float8{Float64: x, Valid: true}
		}
		return x
	case "text", "varchar", "name", "json", "jsonb", "bpchar", "custom":
		x := c.(string)
		switch v.Rep {
		case "ptr":
			return &x
		case "pgtype":
			return pgtype.Text{String: x, Valid: true}
		}
		return x
	case "bytea":
		x := append([]byte{}, c.([]byte)...)
		if v.Rep == "ptr" {
			return &x
		}
		return x
	case "uuid":
		x := c.([16]byte)
		switch v.Rep {
		case "ptr":
			return &x
		case "pgtype":
			return pgtype.UUID{Bytes: x, Valid: true}
		}
		return x
	case "date":
		x := v.inZone(dateOf(c.(int64)), false)
		switch v.Rep {
		case "ptr":
			return &x
		case "pgtype":
			return pgtype.Date{Time: x, Valid: true}
		}
		return x
	case "timestamp":
		x := v.inZone(tsOf(c.(int64)), false)
		switch v.Rep {
		case "ptr":
			return &x
		case "pgtype":
			return pgtype.Timestamp{Time: x, Valid: true}
		}
		return x
	case "timestamptz":
		x := v.inZone(tsOf(c.(int64)), true)
		switch v.Rep {
		case "ptr":
			return &x
		case "pgtype":
			return pgtype.Timestamptz{Time: x, Valid: true}
		}
		return x
	}
	panic("script.Val.Go: type " + v.T)
}

// CanonFromGo converts a value decoded by the library (Parameter.Scan,
// BinaryCopyReader) into the canonical form for the given type name.
func CanonFromGo(typ string, g any) (any, error) {
	if g == nil {
		return nil, nil
	}
	switch x := g.(type) {
	case bool:
		return x, nil
	case int16:
		return int64(x), nil
	case int32:
		return int64(x), nil
	case int64:
		return x, nil
	case int:
		return int64(x), nil
	case uint32:
		return int64(x), nil
	case float32:
		return x, nil
	case float64:
		return x, nil
	case string:
		return x, nil
	case []byte:
		if typ == "json" || typ == "text" || typ == "varchar" || typ == "name" || typ == "bpchar" || typ == "jsonb" {
			return string(x), nil
		}
		return append([]byte{}, x...), nil
	case [16]byte:
		return x, nil
	case time.Time:
		secs := x.Unix() - dayZero.Unix() // time.Sub saturates beyond ~292 years
		if typ == "date" {
			if secs%86400 != 0 {
				return nil, fmt.Errorf("date with time of day: %v", x)
			}
			return secs / 86400, nil
		}
		return secs*1000000 + int64(x.Nanosecond()/1000), nil
	case pgtype.InfinityModifier:
		return fmt.Sprintf("infinity(%d)", x), nil
	}
	return nil, fmt.Errorf("unexpected decoded Go type %T", g)
}

// Layer is one decoration of an error.
type Layer struct {
	K    string `json:"k"` // code|severity|hint|detail|source|constraint|wrap|tail
	S    string `json:"s,omitempty"`
	File string `json:"file,omitempty"`
	Func string `json:"func,omitempty"`
	Line int32  `json:"line,omitempty"`
}

// ErrSpec is an error as data: a base text wrapped by layers, Layers[0]
// being the innermost decoration.
type ErrSpec struct {
	Base   string  `json:"base"`
	Layers []Layer `json:"layers,omitempty"`
	// Wraps: the base error wraps a well-known sentinel ("eof", "unexpected-eof", "closed",
	// "canceled", "deadline"): an error a handler returns is an error to report, whatever it wraps.
	Wraps string `json:"wraps,omitempty"`
}

func sentinel(k string) error {
	switch k {
	case "eof":
		return io.EOF
	case "unexpected-eof":
		return io.ErrUnexpectedEOF
	case "closed":
		return net.ErrClosed
	case "canceled":
		return context.Canceled
	case "deadline":
		return context.DeadlineExceeded
	}
	return nil
}

// BaseText is the message text of the undecorated error.
func (e *ErrSpec) BaseText() string {
	if s := sentinel(e.Wraps); s != nil {
		return e.Base + ": " + s.Error()
	}
	return e.Base
}

func (e *ErrSpec) Build() error {
	if e == nil {
		return nil
	}
	all := e.BuildAll()
	return all[len(all)-1]
}

// BuildAll returns the error after 0, 1, ... len(Layers) decorations; every
// later element wraps the previous one (the values are shared, as they are
// when a program decorates a sentinel error).
func (e *ErrSpec) BuildAll() []error {
	err := errors.New(e.Base)
	if s := sentinel(e.Wraps); s != nil {
		err = fmt.Errorf("%s: %w", e.Base, s)
	}
	all := []error{err}
	for _, l := range e.Layers {
		switch l.K {
		case "code":
			err = psqlerr.WithCode(err, codes.Code(l.S))
		case "severity":
			err = psqlerr.WithSeverity(err, psqlerr.Severity(l.S))
		case "hint":
			err = psqlerr.WithHint(err, l.S)
		case "detail":
			err = psqlerr.WithDetail(err, l.S)
		case "source":
			err = psqlerr.WithSource(err, l.File, l.Line, l.Func)
		case "constraint":
			err = psqlerr.WithConstraintName(err, l.S)
		case "wrap":
			err = fmt.Errorf("ctx: %w", err)
		case "tail":
			err = fmt.Errorf("%w (tail)", err)
		default:
			panic("ErrSpec layer " + l.K)
		}
		all = append(all, err)
	}
	return all
}

// ExpErr is what an ErrorResponse must carry for an ErrSpec, computed by an
// independent fold over the layer list (outermost decoration wins).
type ExpErr struct {
	Severity, Code, Message  string
	Hint, Detail, Constraint *string
	File, Func               *string
	Line                     *int32
}

func (e *ErrSpec) Expect() ExpErr {
	x := ExpErr{Severity: "ERROR", Code: string(codes.Uncategorized), Message: e.BaseText()}
	for _, l := range e.Layers { // later layers are further out: they overwrite
		l := l
		switch l.K {
		case "code":
			x.Code = l.S
		case "severity":
			x.Severity = l.S
		case "hint":
			x.Hint = &l.S
		case "detail":
			x.Detail = &l.S
		case "constraint":
			x.Constraint = &l.S
		case "source":
			x.File, x.Func, x.Line = &l.File, &l.Func, &l.Line
		case "wrap":
			x.Message = "ctx: " + x.Message
		case "tail":
			x.Message = x.Message + " (tail)"
		}
	}
	return x
}

// Col is a column declaration.
type Col struct {
	Name   string `json:"name"`
	T      string `json:"t"`
	OID    uint32 `json:"oid,omitempty"` // overrides T when non-zero
	Table  int32  `json:"table,omitempty"`
	AttrNo int16  `json:"attrno,omitempty"`
	Width  int16  `json:"width,omitempty"`
	ID     int32  `json:"id,omitempty"`
	Attr   int16  `json:"attr,omitempty"`
	TypMod int32  `json:"typmod,omitempty"`
}

func (c Col) Oid() uint32 {
	if c.OID != 0 {
		return c.OID
	}
	return pgwire.OIDs[c.T]
}
