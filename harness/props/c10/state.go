package c10

import (
	"fmt"

	"verif/harness/core"
	"verif/harness/play"
)

type Stateful = play.KeptState

func RunStateful(c Stateful) core.Result {
	res := core.Result{NonTrivial: true}
	total := 0
	for _, n := range append(append([]int{}, c.Pre...), c.Mid...) {
		total += n
	}
	res.Labels = append(res.Labels, "use="+c.Use, fmt.Sprintf("traffic-before>=%dKiB", total/4096*4))
	if c.Limit <= 4096 {
		res.Labels = append(res.Labels, "limit<=4KiB")
	}
	if c.Overs > 1 {
		res.Labels = append(res.Labels, "several-oversized-in-a-row")
	}
	o := play.Run(c.History(), play.Options{Prefix: "C10/state"})
	res.Inconclusive = o.Inconclusive
	if o.Violation != "" {
		res.Sig, res.Violation = o.Sig, o.Violation
		res.Detail = map[string]any{"transcript": o.Transcript}
	}
	return res
}
