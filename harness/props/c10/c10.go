// Package c10: the message-size limit is enforced exactly and recoverably.
package c10

import (
	"bytes"
	"fmt"
	"runtime"
	"strings"

	"verif/harness/core"
	"verif/harness/memnet"
	"verif/harness/pgwire"
	"verif/harness/script"
)

// Case: one sized message at one position of a session.
type Case struct {
	LimitSetting int    `json:"limit_setting"` // value given to MessageBufferSize (<= 0 means default)
	Size         int    `json:"size"`          // declared (and delivered) body size
	Type         byte   `json:"type"`          // message type byte
	Pos          string `json:"pos"`           // first | between | in-batch | during-copy | password | startup
	Segs         []int  `json:"segs,omitempty"`
	SSLFirst     bool   `json:"ssl_first,omitempty"` // a refused SSLRequest precedes the start-up packet
	TLS          bool   `json:"tls,omitempty"`       // the session runs inside TLS (the limit applies to the messages, not to the transport)
}

const defaultLimit = 1 << 24
const refLimit = 1 << 20
const mark = "OVRSZ-MARK"

func (c Case) limit() int {
	if c.LimitSetting <= 0 {
		return defaultLimit
	}
	return c.LimitSetting
}

func filler(n int) []byte {
	b := make([]byte, n)
	for i := range b {
		b[i] = byte('a' + i%23)
	}
	copy(b, mark)
	return b
}

// sized builds a message of the given type whose body has exactly n bytes and
// is as valid as the size allows.
func sized(t byte, n int) []byte {
	body := filler(n)
	put := func(off int, b ...byte) {
		if off >= 0 && off+len(b) <= n {
			copy(body[off:], b)
		}
	}
	switch t {
	case 'Q', 'f', 'p':
		put(n-1, 0)
	case 'P': // name "", query, NUL, count 0
		put(0, 0)
		put(n-3, 0, 0, 0)
	case 'B': // portal "", stmt "", 0 pfmts, 1 param of n-12 bytes, 0 rfmts
		if n >= 12 {
			v := n - 12
			put(0, 0, 0, 0, 0, 0, 1, byte(v>>24), byte(v>>16), byte(v>>8), byte(v))
			put(n-2, 0, 0)
		}
	case 'D', 'C':
		put(0, 'S')
		put(n-1, 0)
	case 'E':
		put(n-5, 0, 0, 0, 0, 0)
	}
	return pgwire.Msg(t, body)
}

func table() script.Table {
	one := script.Stmt{Cols: []script.Col{{Name: "a", T: "int4"}}, Ops: []script.Op{{K: "row", Vals: []script.Val{{T: "int4", I: 1}}}, {K: "complete", Tag: "SELECT 1"}}}
	cp := script.Stmt{Cols: []script.Col{{Name: "a", T: "text"}}, Ops: []script.Op{{K: "copyin", Copy: &script.CopySpec{MaxReads: -1, OnAbort: "propagate"}}, {K: "complete", Tag: "COPY"}}}
	def := script.Outcome{Stmts: []script.Stmt{{Ops: []script.Op{{K: "complete", Tag: "ANY"}}}}}
	return script.Table{Q: map[string]script.Outcome{"select 1": {Stmts: []script.Stmt{one}}, "copy": {Stmts: []script.Stmt{cp}}}, Def: &def}
}

type stepOut struct {
	label string
	msgs  []pgwire.BMsg
	state memnet.State
	err   error
}

type sessOut struct {
	steps  []stepOut
	trace  []script.Event
	panics []script.PanicRec
	inc    string
}

// session runs the case against a server with the given limit setting.
func (c Case) session(limitSetting int) sessOut {
	var o sessOut
	cfg := script.Config{Table: table(), SetLimit: true, Limit: limitSetting}
	if c.Pos == "password" {
		cfg.Auth = &script.AuthSpec{User: "u", Pass: string(bytes.TrimSuffix(sized('p', c.Size)[5:], []byte{0}))}
	}
	if c.TLS {
		cfg.TLS = "cert"
	}
	env := script.Start(cfg)
	defer env.Stop()
	var s interface{ Send([]byte) script.Step }
	if c.TLS {
		ts, err := env.NewTLSSess()
		if err != nil {
			o.inc = "TLS negotiation: " + err.Error()
			return o
		}
		s = ts
	} else {
		ps := env.NewSess()
		if c.Segs != nil {
			ps.C.SetSegments(c.Segs, true)
		}
		if c.SSLFirst {
			// the client first asks for TLS and is refused ('N'): the limit of the session that follows on
			// the same connection is the configured one
			ps.C.Send(pgwire.SSLRequest())
			ps.C.WaitIdle(script.Guard)
			ps.SkipByte()
		}
		s = ps
	}
	do := func(label string, b []byte) bool {
		st := s.Send(b)
		o.steps = append(o.steps, stepOut{label, st.Msgs, st.State, st.Err})
		if st.State == memnet.Timeout {
			o.inc = label + ": no quiescence"
			return false
		}
		return st.State == memnet.Idle
	}
	msg := sized(c.Type, c.Size)
	switch c.Pos {
	case "startup":
		body := filler(c.Size)
		if c.Size >= 4 {
			copy(body, []byte{0, 3, 0, 0})
			// "user\0u\0\0" when it fits, the rest is an (unterminated) junk key
			if c.Size >= 12 {
				copy(body[4:], "user\x00u\x00")
				for i := 11; i < c.Size; i++ {
					body[i] = 'k'
				}
				if c.Size >= 14 {
					body[c.Size-3], body[c.Size-2], body[c.Size-1] = 0, 0, 0
				}
			}
		}
		hdr := []byte{byte((c.Size + 4) >> 24), byte((c.Size + 4) >> 16), byte((c.Size + 4) >> 8), byte(c.Size + 4)}
		if do("msg", append(hdr, body...)) {
			do("after", pgwire.Query("select 1"))
		}
	case "password":
		if !do("startup", pgwire.Startup([][2]string{{"user", "u"}})) {
			break
		}
		if do("msg", sized('p', c.Size)) {
			do("after", pgwire.Query("select 1"))
		}
	default:
		if !do("startup", pgwire.Startup([][2]string{{"user", "u"}})) {
			break
		}
		ok := true
		switch c.Pos {
		case "between":
			ok = do("before", pgwire.Query("select 1"))
		case "in-batch":
			ok = do("before", pgwire.Parse("s", "select 1", nil))
		case "during-copy":
			ok = do("before", pgwire.Query("copy"))
		}
		if !ok {
			break
		}
		if !do("msg", msg) {
			break
		}
		if c.Pos == "during-copy" {
			if !do("copydone", pgwire.CopyDone()) {
				break
			}
		}
		if !do("sync", pgwire.Sync()) {
			break
		}
		do("after", pgwire.Query("select 1"))
	}
	o.trace = env.Trace()
	o.panics = env.Panics()
	return o
}

func (o sessOut) step(label string) *stepOut {
	for i := range o.steps {
		if o.steps[i].label == label {
			return &o.steps[i]
		}
	}
	return nil
}

func traceKey(tr []script.Event) []string {
	var out []string
	for _, ev := range tr {
		out = append(out, fmt.Sprintf("%s|%s|%d|%d|%s|err=%v|%x|%v", ev.K, ev.Q, ev.Idx, ev.Op, ev.OpK, ev.IsErr, ev.Data, ev.Params))
	}
	return out
}

func Run(c Case) core.Result {
	L := c.limit()
	res := core.Result{}
	res.Labels = append(res.Labels, "pos="+c.Pos, "type="+string(rune(c.Type)))
	if c.TLS {
		res.Labels = append(res.Labels, "inside-tls")
	}
	d := c.Size - L
	switch {
	case d == 0:
		res.Labels = append(res.Labels, "s=L")
	case d == 1:
		res.Labels = append(res.Labels, "s=L+1")
	case d == -1:
		res.Labels = append(res.Labels, "s=L-1")
	case d > 1:
		res.Labels = append(res.Labels, "s>L+1")
	default:
		res.Labels = append(res.Labels, "s<L-1")
	}
	if c.LimitSetting <= 0 {
		res.Labels = append(res.Labels, "non-positive-setting")
	}
	res.NonTrivial = (d >= -2 && d <= 2) || d > 0

	got := c.session(c.LimitSetting)
	if got.inc != "" {
		res.Inconclusive = got.inc
		return res
	}
	if len(got.panics) > 0 {
		return core.Fail("C10/panic", "connection goroutine panicked: %s", got.panics[0].Value)
	}
	for _, st := range got.steps {
		if st.err != nil {
			return core.Fail("C10/grammar", "step %s: %v", st.label, st.err)
		}
	}
	if c.Size <= L && c.Size+64 >= refLimit {
		// sizes near the 16 MiB default: a reference server with a higher limit is not available
		// (it would be the default itself), so the message is checked directly: no 54000 error, and a
		// Query reaches the parser byte-exact
		m := got.step("msg")
		if m == nil {
			return core.Fail("C10/within-limit/no-step", "session ended before the message: %+v", got.steps)
		}
		for _, x := range m.msgs {
			if x.Type == 'E' {
				f, _ := x.ErrMap()
				if f['C'] == "54000" {
					return core.Fail("C10/within-limit/rejected", "a %d byte %q message is within the limit %d but was rejected: %s", c.Size, c.Type, L, x.Brief())
				}
			}
		}
		if c.Type == 'Q' {
			seen := false
			for _, ev := range got.trace {
				if ev.K == "parse" && len(ev.Q) == c.Size-1 {
					seen = true
				}
			}
			if !seen {
				return core.Fail("C10/within-limit/not-delivered", "a Query of %d bytes (limit %d) did not reach the parser byte-exact", c.Size, L)
			}
		}
		return res
	}
	if c.Size <= L {
		// differential: identical to a server whose limit is far above every size of the case
		rc := c
		rc.SSLFirst = false         // (the reference session is not preceded by a refused SSLRequest)
		ref := rc.session(refLimit) // (same transport: plaintext or TLS)
		if ref.inc != "" {
			res.Inconclusive = ref.inc
			return res
		}
		for i, st := range ref.steps {
			if i >= len(got.steps) {
				return core.Fail("C10/within-limit/steps", "a %d byte %q message at %s with limit %d: session ends after step %q, the reference (limit %d) continues with %q", c.Size, c.Type, c.Pos, L, got.steps[len(got.steps)-1].label, refLimit, st.label)
			}
			g := got.steps[i]
			if ok, dd := pgwire.CanonEqual(st.msgs, g.msgs); !ok || st.state != g.state {
				return core.Fail("C10/within-limit/"+st.label, "a %d byte %q message at %s is within limit %d but step %q differs from a server with limit %d: %s; state %s vs %s\nlimit %d: %v\nreference: %v", c.Size, c.Type, c.Pos, L, st.label, refLimit, dd, g.state, st.state, L, pgwire.Briefs(g.msgs), pgwire.Briefs(st.msgs))
			}
		}
		a, b := traceKey(got.trace), traceKey(ref.trace)
		if strings.Join(a, "\n") != strings.Join(b, "\n") {
			return core.Fail("C10/within-limit/trace", "a %d byte %q message at %s is within limit %d but the callbacks differ from a server with limit %d:\n%v\nvs\n%v", c.Size, c.Type, c.Pos, L, refLimit, a, b)
		}
		return res
	}
	// s > L
	for _, ev := range got.trace {
		if bytes.Contains([]byte(fmt.Sprintf("%s %s %s %v", ev.Q, ev.Data, ev.Pass, ev.Params)), []byte(mark)) {
			return core.Fail("C10/oversized/reached-callback", "bytes of an oversized (%d > %d) message reached callback %s", c.Size, L, ev.K)
		}
	}
	m := got.step("msg")
	if c.Pos == "startup" || c.Pos == "password" {
		if m == nil {
			return core.Fail("C10/oversized/startup", "no reply step recorded")
		}
		for _, x := range m.msgs {
			if (x.Type == 'R' && x.Auth == 0) || x.Type == 'Z' {
				return core.Fail("C10/oversized/startup-served", "oversized %s message (%d > %d) but the session was established: %v", c.Pos, c.Size, L, pgwire.Briefs(m.msgs))
			}
		}
		if m.state != memnet.Closed {
			return core.Fail("C10/oversized/startup-not-closed", "oversized %s message (%d > %d): connection not closed", c.Pos, c.Size, L)
		}
		for _, ev := range got.trace {
			if ev.K != "" {
				return core.Fail("C10/oversized/startup-callback", "oversized %s message: callback %s ran", c.Pos, ev.K)
			}
		}
		return res
	}
	if m == nil {
		return core.Fail("C10/oversized/no-step", "the session ended before the oversized message was sent: %+v", got.steps)
	}
	nE := 0
	for _, x := range m.msgs {
		if x.Type == 'E' {
			nE++
			f, _ := x.ErrMap()
			if f['C'] != "54000" {
				return core.Fail("C10/oversized/sqlstate", "oversized message (%d > %d, type %q at %s) answered with SQLSTATE %q, want 54000: %v", c.Size, L, c.Type, c.Pos, f['C'], pgwire.Briefs(m.msgs))
			}
			if f['S'] != "ERROR" {
				return core.Fail("C10/oversized/severity", "oversized message answered with severity %q, want the non-fatal ERROR", f['S'])
			}
		} else if x.Type != 'Z' {
			return core.Fail("C10/oversized/reply", "oversized message (%d > %d, type %q at %s) produced %s: %v", c.Size, L, c.Type, c.Pos, x.Brief(), pgwire.Briefs(m.msgs))
		}
	}
	if nE != 1 {
		return core.Fail("C10/oversized/error-count", "oversized message (%d > %d, type %q at %s) answered with %d ErrorResponse messages, want 1: %v", c.Size, L, c.Type, c.Pos, nE, pgwire.Briefs(m.msgs))
	}
	if m.state != memnet.Idle {
		return core.Fail("C10/oversized/closed", "oversized message (%d > %d, type %q at %s): connection did not stay open", c.Size, L, c.Type, c.Pos)
	}
	after := got.step("after")
	if after == nil {
		return core.Fail("C10/oversized/no-recovery", "session ended before the follow-up query: %+v", got.steps)
	}
	if tp := pgwire.Types(after.msgs); tp != "T D C Z" {
		return core.Fail("C10/oversized/next-message", "after an oversized message (%d > %d, type %q at %s) the next query is answered %v, want [T D C Z]", c.Size, L, c.Type, c.Pos, pgwire.Briefs(after.msgs))
	}
	sy := got.step("sync")
	if sy != nil {
		z := 0
		for _, x := range sy.msgs {
			if x.Type == 'Z' {
				z++
			} else {
				return core.Fail("C10/oversized/sync-reply", "Sync after the oversized message answered %v", pgwire.Briefs(sy.msgs))
			}
		}
		if z != 1 {
			return core.Fail("C10/oversized/sync-count", "Sync after the oversized message answered with %d ReadyForQuery", z)
		}
	}
	return res
}

// ---- never buffered: huge declared sizes, few bytes delivered ------------------

type Huge struct {
	Limit     int    `json:"limit"`
	LenWord   uint32 `json:"len_word"`
	Type      byte   `json:"type"`
	Delivered int    `json:"delivered"`
	Pos       string `json:"pos"` // session | startup | password
	Smuggle   bool   `json:"smuggle,omitempty"`
}

func RunHuge(c Huge) core.Result {
	res := core.Result{NonTrivial: true}
	res.Labels = append(res.Labels, "pos="+c.Pos)
	if c.LenWord < 4 {
		res.Labels = append(res.Labels, "sub-minimum-length")
	} else if c.LenWord >= 1<<31 {
		res.Labels = append(res.Labels, "length>=2^31")
	} else {
		res.Labels = append(res.Labels, "huge-length")
	}
	cfg := script.Config{Table: table(), SetLimit: true, Limit: c.Limit}
	if c.Pos == "password" {
		cfg.Auth = &script.AuthSpec{User: "u", Pass: "pw"}
	}
	env := script.Start(cfg)
	defer env.Stop()
	s := env.NewSess()
	if c.Pos == "password" {
		// up to the password prompt; the huge message stands where the password message belongs
		c.Type = 'p'
		s.C.Send(pgwire.Startup([][2]string{{"user", "u"}}))
		if s.C.WaitIdle(script.Guard) != memnet.Idle {
			res.Inconclusive = "startup (password prompt)"
			return res
		}
	}
	if c.Pos == "session" {
		st := s.Startup([][2]string{{"user", "u"}}, nil)
		if st.State != memnet.Idle {
			res.Inconclusive = "startup"
			return res
		}
	}
	body := filler(c.Delivered)
	if c.Smuggle {
		// the first bytes of the (never completed) body form a complete, valid Query followed by a
		// Terminate: a server that does not skip the declared length would execute it
		body = append(pgwire.Query("select SMUGGLED-"+mark), pgwire.Terminate()...)
	}
	var frame []byte
	if c.Pos == "startup" {
		frame = append([]byte{byte(c.LenWord >> 24), byte(c.LenWord >> 16), byte(c.LenWord >> 8), byte(c.LenWord)}, body...)
	} else {
		frame = pgwire.RawFrame(c.Type, c.LenWord, body)
	}
	runtime.GC()
	var m0, m1 runtime.MemStats
	runtime.ReadMemStats(&m0)
	s.C.Send(frame)
	st := s.C.WaitIdle(script.Guard)
	runtime.ReadMemStats(&m1)
	if st == memnet.Timeout {
		res.Inconclusive = "no quiescence after the huge header"
		return res
	}
	if ps := env.Panics(); len(ps) > 0 {
		return core.Fail("C10/huge/panic", "length word %d: panic: %s", c.LenWord, ps[0].Value)
	}
	alloc := m1.TotalAlloc - m0.TotalAlloc
	lim := c.Limit
	if lim < 4096 {
		lim = 4096
	}
	bound := uint64(4*lim+2*len(body)) + 256<<10
	if alloc > bound {
		return core.Fail("C10/huge/buffered", "a message declaring %d bytes (limit %d) of which %d were delivered made the server allocate %d bytes (bound %d): oversized messages must never be buffered", c.LenWord, c.Limit, c.Delivered, alloc, bound)
	}
	for _, ev := range env.Trace() {
		if ev.K == "parse" || ev.K == "stmt" {
			return core.Fail("C10/huge/callback", "length word %d (%d body bytes delivered): callback %s(%q) ran - the body of a message that is not processed was interpreted", c.LenWord, len(body), ev.K, ev.Q)
		}
	}
	if c.Pos == "session" && c.LenWord >= 4 && int64(c.LenWord)-4 > int64(c.Limit) {
		// declared body exceeds the limit and is still being skipped: the only reply so far is the 54000 error
		out, _, perr := pgwire.ParseStream(s.C.Output())
		if perr == nil {
			n := 0
			for _, m := range out[len(out)-min(len(out), 3):] {
				if m.Type == 'T' || m.Type == 'D' || m.Type == 'C' {
					n++
				}
			}
			if n > 0 {
				return core.Fail("C10/huge/body-interpreted", "length word %d: the server produced query results while it should be skipping the body: %v", c.LenWord, pgwire.Briefs(out))
			}
		}
		if closed, _ := s.C.ServerClosed(); closed {
			return core.Fail("C10/huge/closed", "length word %d with only %d body bytes delivered: the server closed the connection instead of skipping the declared length", c.LenWord, len(body))
		}
	}
	if (c.Pos == "startup" || c.Pos == "password") && c.LenWord >= 4 && int64(c.LenWord)-4 > int64(c.Limit) && c.Limit > 0 {
		// during start-up or authentication an oversized message ends the connection: the server does
		// not wait for a body it is never going to use (the client is still connected and silent)
		if closed, _ := s.C.ServerClosed(); !closed {
			return core.Fail("C10/huge/startup-not-closed", "a %s message declaring %d bytes (limit %d), %d of them delivered: the connection is still open, the server waits for the rest of a message it must refuse", c.Pos, c.LenWord-4, c.Limit, c.Delivered)
		}
	}
	// the message is rejected (ErrorResponse or close) or the server keeps skipping; input ends -> handling ends
	s.C.CloseWrite()
	if !s.C.WaitClosed(script.Guard) {
		return core.Fail("C10/huge/wedged", "length word %d with %d bytes delivered: connection not closed after the input ended", c.LenWord, c.Delivered)
	}
	msgs, _, perr := pgwire.ParseStream(s.C.Output())
	if perr != nil {
		return core.Fail("C10/huge/grammar", "%v", perr)
	}
	_ = msgs
	return res
}
