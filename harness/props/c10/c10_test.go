package c10

import (
	"testing"

	"pgregory.net/rapid"

	"verif/harness/core"
	"verif/harness/gen"
)

func TestMain(m *testing.M) {
	core.Main(m, "C10", "cases = (limit setting L from a boundary table or random 16..70000, or a non-positive setting = default; declared body size s enumerated over {0,1,L-1,L,L+1,L+2,2L-1,2L,2L+1,3L+7,10L} or drawn up to 40L; message type Q P B D E C H S d c f X or unknown; position first / between queries / inside an extended batch / during COPY / in place of the password / as startup packet; segmentation of the body); s <= L: differential against a server with limit 1 MiB (transcript and callbacks identical); s > L: exactly one ERROR/54000 ErrorResponse, no callback sees the body, Sync and the next query answered normally, connection stays open (startup/auth: closed instead); state: a session prepares a statement and binds a portal with a parameter, carries 0..20 KiB of ordinary traffic (bodies up to L, 12 limits 64..65536), receives 1..5 oversized messages in a row and then executes / describes / re-binds what it kept, against the reference model (the message after the oversized one is processed normally also when it depends on earlier messages); huge: length words 0..3, 2^31-1, 2^31, 2^32-1 with a few bytes delivered: bounded allocation, no callback, handling ends with the input; non-trivial = |s-L| <= 2, or s > L, or a sub-minimum/huge length; distinct = distinct canonical JSON")
}

var limits = []int{16, 17, 31, 64, 100, 255, 256, 1000, 4095, 4096, 4097, 65536}
var types = []byte{'Q', 'P', 'B', 'D', 'E', 'C', 'H', 'S', 'd', 'c', 'f', 'X', 'Y'}
var positions = []string{"first", "between", "in-batch", "during-copy", "password", "startup"}

func sizesFor(L int) []int {
	return []int{0, 1, L - 1, L, L + 1, L + 2, 2*L - 1, 2 * L, 2*L + 1, 3*L + 7, 10 * L}
}

func genCase(t *rapid.T) Case {
	c := Case{}
	switch rapid.IntRange(0, 9).Draw(t, "limit-kind") {
	case 0:
		c.LimitSetting = rapid.IntRange(16, 70000).Draw(t, "limit")
	default:
		c.LimitSetting = rapid.SampledFrom(limits).Draw(t, "limit")
	}
	L := c.LimitSetting
	if rapid.IntRange(0, 3).Draw(t, "size-kind") == 0 {
		c.Size = rapid.IntRange(0, 40*L).Draw(t, "size")
	} else {
		c.Size = rapid.SampledFrom(sizesFor(L)).Draw(t, "size")
	}
	c.Type = rapid.SampledFrom(types).Draw(t, "type")
	c.Pos = rapid.SampledFrom(positions).Draw(t, "pos")
	if c.Pos == "password" {
		c.Type = 'p'
	}
	if c.Pos != "startup" && c.Pos != "password" && rapid.IntRange(0, 5).Draw(t, "tls") == 0 {
		c.TLS = true
	}
	c.SSLFirst = !c.TLS && rapid.IntRange(0, 3).Draw(t, "ssl-refused-first") == 0
	switch rapid.IntRange(0, 3).Draw(t, "segs") {
	case 0:
		c.Segs = []int{L}
	case 1:
		c.Segs = []int{L - 1, 2, L + 1, 5}
	case 2:
		c.Segs = gen.Segments().Draw(t, "segs")
	}
	return c
}

func genStateful(t *rapid.T) Stateful {
	c := Stateful{Limit: rapid.SampledFrom([]int{64, 100, 512, 600, 1024, 2048, 4000, 4095, 4096, 4097, 8192, 65536}).Draw(t, "limit")}
	size := func(label string) int {
		// body sizes relative to the limit and to 4 KiB
		switch rapid.IntRange(0, 3).Draw(t, label+"-kind") {
		case 0:
			return rapid.IntRange(1, 40).Draw(t, label)
		case 1:
			return c.Limit - 1 - rapid.IntRange(0, 8).Draw(t, label)
		}
		return rapid.IntRange(1, c.Limit).Draw(t, label)
	}
	// up to ~3 blocks of 4 KiB of ordinary traffic before and after the state is built
	budget := rapid.IntRange(0, 3*4096).Draw(t, "pre-bytes")
	for budget > 0 && len(c.Pre) < 200 {
		n := size("pre")
		c.Pre = append(c.Pre, n)
		budget -= n + 5
	}
	budget = rapid.IntRange(0, 2*4096).Draw(t, "mid-bytes")
	for budget > 0 && len(c.Mid) < 200 {
		n := size("mid")
		c.Mid = append(c.Mid, n)
		budget -= n + 5
	}
	c.ParamLen = rapid.SampledFrom([]int{0, 1, 10, 100, 1500, 4000}).Draw(t, "param-len")
	c.OverType = rapid.SampledFrom([]byte{'Q', 'P', 'B', 'E', 'd', 'Y'}).Draw(t, "over-type")
	c.OverBy = rapid.SampledFrom([]int{1, 2, 100, 4096, 5000, c.Limit, 3*c.Limit + 7}).Draw(t, "over-by")
	c.Overs = rapid.SampledFrom([]int{1, 1, 1, 2, 5}).Draw(t, "overs")
	c.Discarding = rapid.IntRange(0, 2).Draw(t, "while-discarding") == 0
	c.Use = rapid.SampledFrom([]string{"execute", "execute-twice", "describe-portal", "describe-stmt", "bind-again"}).Draw(t, "use")
	if rapid.IntRange(0, 3).Draw(t, "sub-minimum-lengths?") == 0 {
		c.SubMin = rapid.SliceOfN(rapid.Uint32Range(0, 3), 1, 3).Draw(t, "sub-min")
	}
	if rapid.IntRange(0, 4).Draw(t, "segmented") == 0 {
		c.Segs = gen.Segments().Draw(t, "segs")
	}
	return c
}

func TestStateful(t *testing.T) {
	core.RunProp(t, "state", core.Scale(400), genStateful, RunStateful)
}

func TestReplayStateful(t *testing.T) {
	core.Replay(t, map[string]func(Stateful) core.Result{"state": RunStateful})
}

func TestProp(t *testing.T) {
	core.RunProp(t, "main", core.Scale(1200), genCase, Run)
}

// TestBoundaries enumerates the boundary table completely for a set of limits.
func TestBoundaries(t *testing.T) {
	ls := []int{16, 64, 255, 4096}
	if core.Tier() == "thorough" {
		ls = limits
	}
	shard, shards := core.Shard()
	i := 0
	for _, L := range ls {
		for _, s := range sizesFor(L) {
			for _, tp := range types {
				for _, pos := range positions[:4] {
					i++
					if i%shards != shard {
						continue
					}
					core.RunCase(t, "bounds", Case{LimitSetting: L, Size: s, Type: tp, Pos: pos}, Run)
				}
			}
			for _, pos := range positions[4:] {
				i++
				if i%shards != shard {
					continue
				}
				tp := byte('p')
				core.RunCase(t, "bounds", Case{LimitSetting: L, Size: s, Type: tp, Pos: pos}, Run)
			}
		}
	}
	// the same boundaries inside a TLS session (TLS record size 16384 is not a message limit)
	for _, L := range []int{64, 1000, 4096, 16383, 16384, 20000} {
		for _, sz := range []int{L - 1, L, L + 1, 16384, 16385, 2*L + 1} {
			i++
			if i%shards != shard {
				continue
			}
			core.RunCase(t, "bounds", Case{LimitSetting: L, Size: sz, Type: 'Q', Pos: "between", TLS: true}, Run)
		}
	}
	core.MarkExhaustive("bounds (limits x boundary sizes x 13 types x 4 session positions, + password/startup, + inside TLS)")
}

// TestNonPositive: settings 0, -1, -L mean the default of 16 MiB.
func TestNonPositive(t *testing.T) {
	for _, ls := range []int{0, -1, -4096} {
		for _, s := range []int{1, 100, 5000} {
			core.RunCase(t, "nonpositive", Case{LimitSetting: ls, Size: s, Type: 'Q', Pos: "between"}, Run)
		}
	}
	if core.Tier() == "thorough" {
		if sh, _ := core.Shard(); sh == 0 {
			for _, s := range []int{defaultLimit - 1, defaultLimit, defaultLimit + 1} {
				core.RunCase(t, "nonpositive", Case{LimitSetting: 0, Size: s, Type: 'Q', Pos: "between"}, Run)
			}
		}
	}
}

func TestHuge(t *testing.T) {
	shard, _ := core.Shard()
	if shard != 0 {
		return
	}
	for _, L := range []int{64, 4096, 16384} {
		for _, lw := range []uint32{0, 1, 2, 3, 1<<31 - 1, 1 << 31, 1<<32 - 1, 1 << 30, uint32(L) + 5, 1 << 24} {
			for _, tp := range []byte{'Q', 'B', 'd', 'Y'} {
				for _, dl := range []int{0, 3, 40} {
					core.RunCase(t, "huge", Huge{Limit: L, LenWord: lw, Type: tp, Delivered: dl, Pos: "session"}, RunHuge)
				}
				if lw >= 4 {
					// (below the minimum there is no body: what follows the length word is legitimately the next message)
					core.RunCase(t, "huge", Huge{Limit: L, LenWord: lw, Type: tp, Pos: "session", Smuggle: true}, RunHuge)
				}
			}
			for _, dl := range []int{0, 8, 16} {
				core.RunCase(t, "huge", Huge{Limit: L, LenWord: lw, Delivered: dl, Pos: "startup"}, RunHuge)
				core.RunCase(t, "huge", Huge{Limit: L, LenWord: lw, Delivered: dl, Pos: "password"}, RunHuge)
			}
		}
	}
	core.MarkExhaustive("huge (3 limits x 10 length words x 4 types x 3 delivered sizes, + start-up packet and password message with 0 / 8 / 16 bytes delivered)")
}

func TestReplay(t *testing.T) {
	core.Replay(t, map[string]func(Case) core.Result{"main": Run, "bounds": Run, "nonpositive": Run})
}
func TestReplayHuge(t *testing.T) {
	core.Replay(t, map[string]func(Huge) core.Result{"huge": RunHuge})
}

// FuzzState: coverage-guided search over the kept-state histories (thorough tier).
func FuzzState(f *testing.F) {
	core.FuzzProp(f, "state", genStateful, RunStateful)
}
