package c03

import (
	"fmt"

	"verif/harness/core"
	"verif/harness/pgwire"
	"verif/harness/play"
	"verif/harness/script"
)

// CaseD: the transcript of a connection is a function of its own byte stream,
// however much traffic it has already carried and whatever other connections
// came and went meanwhile: a session defines a statement and binds a portal
// early, carries up to several hundred KiB of ordinary messages, and then uses
// both; the oracle is the reference model of the protocol.
type CaseD struct {
	play.KeptState
	Visitors []int `json:"visitors,omitempty"` // after these message indexes another client connects, asks one query and leaves
}

func RunD(c CaseD) core.Result {
	res := core.Result{}
	total := 0
	for _, n := range append(append([]int{}, c.Pre...), c.Mid...) {
		total += n + 5
	}
	res.NonTrivial = total >= 64<<10
	res.Labels = append(res.Labels, "long-lived", "use="+c.Use, fmt.Sprintf("traffic>=%dKiB", total>>16<<6))
	if c.Overs > 0 {
		res.NonTrivial = true
		res.Labels = append(res.Labels, fmt.Sprintf("oversized-body>=%dKiB", (c.Limit+c.OverBy)>>16<<6))
	}
	if len(c.SubMin) > 0 {
		res.NonTrivial = true
		res.Labels = append(res.Labels, "sub-minimum-length-words")
	}
	if len(c.Visitors) > 0 {
		res.Labels = append(res.Labels, "other-connections-meanwhile")
	}
	visit := map[int]int{}
	for _, v := range c.Visitors {
		visit[v]++
	}
	o := play.Run(c.History(), play.Options{Prefix: "C03/long", AfterStep: func(i int, msg script.CMsg, step script.Step, env *script.Env) string {
		for k := 0; k < visit[i]; k++ {
			v := env.NewSess()
			v.Startup([][2]string{{"user", "visitor"}, {"application_name", "someone else entirely"}}, nil)
			v.Send(pgwire.Query("select 'visitor query text, unrelated to the session under test'"))
			v.C.Send(pgwire.Terminate())
			v.C.CloseWrite()
			v.C.WaitClosed(script.Guard)
		}
		return ""
	}})
	res.Inconclusive = o.Inconclusive
	if o.Violation != "" {
		res.Sig, res.Violation = o.Sig, o.Violation
	}
	return res
}
