package c03

import (
	"testing"

	"pgregory.net/rapid"

	"verif/harness/core"
	"verif/harness/gen"
	"verif/harness/play"
	"verif/harness/script"
)

func TestMain(m *testing.M) {
	core.Main(m, "C03", "(a) a client byte stream (valid, surplus-carrying, truncated, oversized and malformed messages) delivered in one segment, one byte per read and 2..3 generated cut lists biased to cut inside headers: transcripts and callback traces must be identical; non-trivial = >= 3 messages and a cut strictly inside a 5-byte header. (b) messages with surplus bytes (Parse with parameter OIDs, trailing bytes that look like a complete next frame and carry a marker) vs the same sequence stripped: replies and callbacks equal, marker never reaches a callback; non-trivial = surplus of >= 5 bytes. (c) buffer.Reader accessor sequences on a message followed by a sentinel-filled message, against an independent cursor; non-trivial = a call crosses the end of the body. (d) a session that prepares a statement and binds a portal, then carries 0..380 KiB of ordinary messages (bodies 1..limit, limits 4 KiB..64 KiB) while 0..3 other clients connect, ask and leave, and only then uses the statement / portal, against the reference model; non-trivial = >= 64 KiB of traffic in between. distinct = distinct canonical JSON per sub-check")
}

var opts = gen.RichOpts{Malformed: true, Oversized: true, Copy: true, Auth: true}

func genA(t *rapid.T) CaseA {
	c := CaseA{History: gen.Rich(t, opts)}
	c.SSLFirst = rapid.IntRange(0, 3).Draw(t, "ssl-first") == 0
	if c.SSLFirst {
		c.Cfg.TLS = rapid.SampledFrom([]string{"", "empty"}).Draw(t, "tls-config")
	}
	total := len(play.StartupBytes(c.History, false))
	if c.SSLFirst {
		total += 8
		c.Cuts = append(c.Cuts, []int{8}, []int{rapid.IntRange(1, 16).Draw(t, "negotiation-cut")})
	}
	var bounds []int
	for _, m := range c.Msgs {
		bounds = append(bounds, total)
		total += len(m.Bytes())
	}
	c.Cuts = append(c.Cuts, nil) // one byte per read
	ncut := rapid.IntRange(1, 2).Draw(t, "ncuts")
	for k := 0; k < ncut; k++ {
		// choose cut positions: biased to header interiors and message boundaries +-1
		var pts []int
		np := rapid.IntRange(1, 12).Draw(t, "npoints")
		for i := 0; i < np; i++ {
			var p int
			if len(bounds) > 0 && rapid.IntRange(0, 3).Draw(t, "near-header") != 0 {
				b := rapid.SampledFrom(bounds).Draw(t, "boundary")
				p = b + rapid.IntRange(-1, 6).Draw(t, "delta")
			} else {
				p = rapid.IntRange(1, total).Draw(t, "anywhere")
			}
			if p > 0 && p < total {
				pts = append(pts, p)
			}
		}
		sortInts(pts)
		var segs []int
		prev := 0
		for _, p := range pts {
			if p > prev {
				segs = append(segs, p-prev)
				prev = p
			}
		}
		if len(segs) == 0 {
			segs = []int{3}
		}
		c.Cuts = append(c.Cuts, segs)
	}
	return c
}

func sortInts(a []int) {
	for i := range a {
		for j := i + 1; j < len(a); j++ {
			if a[j] < a[i] {
				a[i], a[j] = a[j], a[i]
			}
		}
	}
}

var frameLike = [][]byte{
	append([]byte("S\x00\x00\x00\x04"), marker...),
	append([]byte("Q\x00\x00\x00\x0dselect 1\x00"), marker...),
	append([]byte("X\x00\x00\x00\x04"), marker...),
	[]byte(marker),
	{0},
	append([]byte("\x00\x00\x00\x01"), marker...),
}

func genB(t *rapid.T) CaseB {
	c := CaseB{}
	c.Cfg.Table = gen.RichTable(t, gen.RichOpts{})
	c.Cfg.SetLimit, c.Cfg.Limit = true, 1<<14
	n := rapid.IntRange(2, 12).Draw(t, "nmsgs")
	tail := func() []byte {
		if rapid.IntRange(0, 2).Draw(t, "tail?") == 0 {
			return nil
		}
		return rapid.SampledFrom(frameLike).Draw(t, "tail")
	}
	q := func() string { return rapid.SampledFrom(gen.QueryNames).Draw(t, "query") }
	for i := 0; i < n; i++ {
		var m script.CMsg
		switch rapid.IntRange(0, 8).Draw(t, "msg") {
		case 0, 1:
			m = script.CMsg{K: "Q", Query: q(), Tail: tail()}
		case 2, 3:
			m = script.CMsg{K: "P", Name: rapid.SampledFrom([]string{"", "a"}).Draw(t, "stmt"), Query: q(), Tail: tail()}
			no := rapid.IntRange(0, 50).Draw(t, "noids")
			for j := 0; j < no; j++ {
				m.OIDs = append(m.OIDs, rapid.SampledFrom([]uint32{0, 23, 0x53000000, 0x00000004, 0x51000000, 0xFFFFFFFF}).Draw(t, "oid"))
			}
		case 4:
			m = script.CMsg{K: "B", Portal: "", Name: rapid.SampledFrom([]string{"", "a"}).Draw(t, "stmt"), Tail: tail()}
		case 5:
			m = script.CMsg{K: "E", Tail: tail()}
		case 6:
			m = script.CMsg{K: rapid.SampledFrom([]string{"D", "C"}).Draw(t, "dc"), Kind: rapid.SampledFrom([]byte{'S', 'P'}).Draw(t, "kind"), Tail: tail()}
		case 7:
			m = script.CMsg{K: rapid.SampledFrom([]string{"S", "H"}).Draw(t, "sh"), Tail: tail()}
		default:
			m = script.CMsg{K: "S"}
		}
		c.Msgs = append(c.Msgs, m)
	}
	c.Msgs = append(c.Msgs, script.CMsg{K: "S"}, script.CMsg{K: "Q", Query: q()})
	return c
}

func genC(t *rapid.T) CaseC {
	c := CaseC{Typed: rapid.Bool().Draw(t, "typed"), OneByte: rapid.IntRange(0, 3).Draw(t, "one-byte") == 0}
	c.Limit = rapid.SampledFrom([]int{256, 4096, 5000}).Draw(t, "limit")
	n := rapid.IntRange(0, 200).Draw(t, "body-len")
	nulPct := rapid.SampledFrom([]int{0, 3, 30}).Draw(t, "nul-pct")
	c.Body = make([]byte, n)
	for i := range c.Body {
		if rapid.IntRange(1, 100).Draw(t, "nul?") <= nulPct {
			c.Body[i] = 0
		} else {
			c.Body[i] = rapid.SampledFrom([]byte{'a', 'b', 1, 2, 0xff, 0x10, 'z'}).Draw(t, "byte")
		}
	}
	c.Next = rapid.SampledFrom([]int{0, 1, 8, 64, 200}).Draw(t, "next")
	no := rapid.IntRange(0, 30).Draw(t, "nops")
	left := n
	for i := 0; i < no; i++ {
		op := AccOp{K: rapid.SampledFrom([]string{"string", "bytes", "bytes", "u16", "u32", "prep"}).Draw(t, "op")}
		if op.K == "bytes" {
			switch rapid.IntRange(0, 4).Draw(t, "n-kind") {
			case 0:
				op.N = left
			case 1:
				op.N = left + rapid.IntRange(1, 300).Draw(t, "over")
			case 2:
				op.N = 0
			default:
				op.N = rapid.IntRange(0, 16).Draw(t, "n")
			}
			if op.N <= left {
				left -= op.N
			}
		}
		c.Ops = append(c.Ops, op)
	}
	return c
}

func genD(t *rapid.T) CaseD {
	c := CaseD{}
	c.Limit = rapid.SampledFrom([]int{4096, 16384, 65536, 65536}).Draw(t, "limit")
	size := func(label string) int {
		switch rapid.IntRange(0, 3).Draw(t, label+"-kind") {
		case 0:
			return rapid.IntRange(1, 100).Draw(t, label)
		case 1:
			return c.Limit - 1 - rapid.IntRange(0, 8).Draw(t, label)
		}
		return rapid.IntRange(1, c.Limit).Draw(t, label)
	}
	fill := func(label string, max int) (out []int) {
		budget := rapid.IntRange(0, max).Draw(t, label+"-bytes")
		for budget > 0 && len(out) < 400 {
			n := size(label)
			out = append(out, n)
			budget -= n + 5
		}
		return
	}
	c.Pre = fill("pre", 80<<10)
	c.Mid = fill("mid", 300<<10)
	c.ParamLen = rapid.SampledFrom([]int{0, 10, 1500, 4000}).Draw(t, "param-len")
	c.Use = rapid.SampledFrom([]string{"execute", "execute-twice", "describe-portal", "describe-stmt", "bind-again"}).Draw(t, "use")
	// oversized messages are consumed in exactly their declared length as well (bodies beyond the limit,
	// beyond 64 KiB and not a multiple of any power of two), whatever follows them is read as it stands
	if rapid.IntRange(0, 2).Draw(t, "oversized?") == 0 {
		c.Overs = rapid.SampledFrom([]int{1, 1, 2, 3}).Draw(t, "overs")
		body := rapid.SampledFrom([]int{c.Limit + 1, c.Limit + 100, 65537, 70000, 131073, 200000, 3*c.Limit + 7, 1<<20 + 3}).Draw(t, "over-body")
		if body <= c.Limit {
			body = c.Limit + 1
		}
		c.OverBy = body - c.Limit
		c.OverType = rapid.SampledFrom([]byte{'Q', 'P', 'B', 'd', 'Y'}).Draw(t, "over-type")
		c.Discarding = rapid.Bool().Draw(t, "while-discarding")
	}
	if rapid.IntRange(0, 3).Draw(t, "sub-minimum-lengths?") == 0 {
		c.SubMin = rapid.SliceOfN(rapid.Uint32Range(0, 3), 1, 3).Draw(t, "sub-min")
		if c.OverType == 0 {
			c.OverType = rapid.SampledFrom([]byte{'Q', 'P', 'S', 'd', 'Y'}).Draw(t, "sub-min-type")
		}
	}
	nmsgs := len(c.Pre) + 3 + len(c.Mid)
	for i, n := 0, rapid.IntRange(0, 3).Draw(t, "nvisitors"); i < n; i++ {
		c.Visitors = append(c.Visitors, rapid.IntRange(0, nmsgs-1).Draw(t, "visitor-at"))
	}
	return c
}

func TestLongLived(t *testing.T) {
	core.RunProp(t, "d", core.Scale(150), genD, RunD)
}

func TestSegmentation(t *testing.T) {
	core.RunProp(t, "a", core.Scale(500), genA, RunA)
}

func TestSurplus(t *testing.T) {
	core.RunProp(t, "b", core.Scale(800), genB, RunB)
}

func TestAccessors(t *testing.T) {
	core.RunProp(t, "c", core.Scale(15000), genC, RunC)
}

func FuzzAccessors(f *testing.F) {
	f.Add([]byte("select 1\x00"), []byte{0, 1, 2, 3}, true)
	f.Add([]byte{0, 1, 0, 0}, []byte{2, 3, 3, 1, 200, 0}, false)
	f.Fuzz(func(t *testing.T, body []byte, ops []byte, typed bool) {
		if len(body) > 250 || len(ops) > 40 {
			return
		}
		for i := range body {
			if body[i] == sentinel {
				body[i] = 1
			}
		}
		c := CaseC{Typed: typed, Body: body, Limit: 256, Next: 16}
		for i := 0; i < len(ops); i++ {
			switch ops[i] % 5 {
			case 0:
				c.Ops = append(c.Ops, AccOp{K: "string"})
			case 1:
				n := 0
				if i+1 < len(ops) {
					i++
					n = int(ops[i])
				}
				c.Ops = append(c.Ops, AccOp{K: "bytes", N: n})
			case 2:
				c.Ops = append(c.Ops, AccOp{K: "u16"})
			case 3:
				c.Ops = append(c.Ops, AccOp{K: "u32"})
			default:
				c.Ops = append(c.Ops, AccOp{K: "prep"})
			}
		}
		core.FuzzCase(t, "c", c, RunC)
	})
}

func TestReplayA(t *testing.T) { core.Replay(t, map[string]func(CaseA) core.Result{"a": RunA}) }
func TestReplayB(t *testing.T) { core.Replay(t, map[string]func(CaseB) core.Result{"b": RunB}) }
func TestReplayD(t *testing.T) { core.Replay(t, map[string]func(CaseD) core.Result{"d": RunD}) }
func TestReplayC(t *testing.T) { core.Replay(t, map[string]func(CaseC) core.Result{"c": RunC}) }

// FuzzSegmentation: coverage-guided search over byte streams x segmentations (thorough tier).
func FuzzSegmentation(f *testing.F) {
	core.FuzzProp(f, "a", genA, RunA)
}
