// Package c03: request parsing depends only on the byte stream, message by
// message; accessors never read beyond the current message.
package c03

import (
	"bytes"
	"encoding/binary"
	"fmt"
	"io"
	"log/slog"
	"strings"
	"testing/iotest"

	"github.com/jeroenrinzema/psql-wire/pkg/buffer"

	"verif/harness/core"
	"verif/harness/pgwire"
	"verif/harness/play"
	"verif/harness/script"
)

// ---- (a) segmentation independence -------------------------------------------

type CaseA struct {
	play.History
	Cuts [][]int `json:"cuts"` // alternative segmentations (nil entry = one byte per read)
	// SSLFirst: the stream starts with an SSLRequest (the server has no certificates and
	// answers 'N'); the startup packet and everything else follow in the same byte stream.
	SSLFirst bool `json:"ssl_first,omitempty"`
}

// normTrace strips schedule/transport dependent fields from a trace.
func normTrace(tr []script.Event) []string {
	var out []string
	for _, ev := range tr {
		ev.At, ev.Conn, ev.Out0, ev.Out1 = 0, 0, 0, 0
		if ev.Ctx != nil {
			c := *ev.Ctx
			c.Remote = ""
			for i := range c.MWKeys {
				c.MWKeys[i] = ""
			}
			ev.Ctx = &c
		}
		b, _ := core.MarshalCase(ev)
		out = append(out, string(b))
	}
	return out
}

func RunA(c CaseA) core.Result {
	res := core.Result{}
	var stream []byte
	for _, m := range c.Msgs {
		stream = append(stream, m.Bytes()...)
	}
	frames, _ := pgwire.Frames(stream)
	res.Labels = append(res.Labels, fmt.Sprintf("segmentations=%d", len(c.Cuts)+1))
	insideHeader := false
	// reference: everything delivered in one piece
	var prefix []byte
	if c.SSLFirst {
		prefix = pgwire.SSLRequest()
		res.Labels = append(res.Labels, "ssl-request-first")
	}
	ref := play.RunRaw(c.History, play.RawOptions{AtOnce: true, Prefix: prefix})
	if ref.Inconclusive != "" {
		res.Inconclusive = ref.Inconclusive
		return res
	}
	// the accessor clause, reached through the wire: reading the fields of a (malformed) message never
	// panics inside the message reader (other panics are C04's business)
	for _, p := range ref.Panics {
		if strings.Contains(p.Stack, "pkg/buffer.(*Reader)") {
			res.Sig, res.Violation = "C03/a/accessor-panic", fmt.Sprintf("a message field accessor panicked on client data: %s\n%s", p.Value, clip(p.Stack))
			res.NonTrivial = true
			return res
		}
	}
	refTrace := normTrace(ref.Trace)
	for i, cut := range c.Cuts {
		h := c.History
		if cut == nil {
			h.Segs, h.Cycle = []int{1}, true
			insideHeader = true
		} else {
			h.Segs, h.Cycle = cut, false
			insideHeader = insideHeader || cutsInsideHeader(c.History, cut)
		}
		alt := play.RunRaw(h, play.RawOptions{AtOnce: true, Prefix: prefix})
		if alt.Inconclusive != "" {
			res.Inconclusive = alt.Inconclusive
			return res
		}
		if len(ref.Panics) != len(alt.Panics) {
			res.Sig, res.Violation = "C03/a/panic-differs", fmt.Sprintf("segmentation %d (%v): %d panics vs %d with one segment", i, cut, len(alt.Panics), len(ref.Panics))
			return res
		}
		if (ref.GrammarErr == nil) != (alt.GrammarErr == nil) {
			res.Sig, res.Violation = "C03/a/grammar-differs", fmt.Sprintf("segmentation %d: grammar result differs: %v vs %v", i, alt.GrammarErr, ref.GrammarErr)
			return res
		}
		if ok, d := pgwire.CanonEqual(ref.Msgs, alt.Msgs); !ok {
			res.Sig, res.Violation = "C03/a/transcript-differs", fmt.Sprintf("the same %d bytes cut as %v give a different transcript than in one segment: %s\none segment: %v\nthis cut:    %v", len(stream), showCut(cut), d, pgwire.Briefs(ref.Msgs), pgwire.Briefs(alt.Msgs))
			return res
		}
		at := normTrace(alt.Trace)
		if len(at) != len(refTrace) {
			res.Sig, res.Violation = "C03/a/trace-differs", fmt.Sprintf("segmentation %v: %d callback events vs %d", showCut(cut), len(at), len(refTrace))
			return res
		}
		for j := range at {
			if at[j] != refTrace[j] {
				res.Sig, res.Violation = "C03/a/trace-differs", fmt.Sprintf("segmentation %v: callback event %d differs: %s vs %s", showCut(cut), j, clip(at[j]), clip(refTrace[j]))
				return res
			}
		}
		if ref.Closed != alt.Closed {
			res.Sig, res.Violation = "C03/a/close-differs", fmt.Sprintf("segmentation %v: connection closed=%v vs %v", showCut(cut), alt.Closed, ref.Closed)
			return res
		}
	}
	if insideHeader {
		res.Labels = append(res.Labels, "cut-inside-header")
	}
	res.NonTrivial = len(frames) >= 3 && insideHeader
	return res
}

func showCut(c []int) any {
	if c == nil {
		return "1 byte per read"
	}
	if len(c) > 24 {
		return fmt.Sprintf("%v...", c[:24])
	}
	return c
}

func clip(s string) string {
	if len(s) > 300 {
		return s[:300] + "..."
	}
	return s
}

// cutsInsideHeader: does some segment boundary fall strictly inside a 5 byte header?
func cutsInsideHeader(h play.History, cut []int) bool {
	start := len(play.StartupBytes(h, false))
	hdr := map[int]bool{}
	off := start
	for _, m := range h.Msgs {
		for k := 1; k <= 4; k++ {
			hdr[off+k] = true
		}
		off += len(m.Bytes())
	}
	pos := 0
	for _, s := range cut {
		pos += s
		if hdr[pos] {
			return true
		}
	}
	return false
}

// ---- (b) exact consumption ------------------------------------------------------

type CaseB struct {
	play.History // messages carry Tail (surplus) bytes
}

const marker = "SURPLUS-MARKER"

func strip(msgs []script.CMsg) []script.CMsg {
	out := make([]script.CMsg, len(msgs))
	for i, m := range msgs {
		m.Tail = nil
		if m.K == "P" {
			m.OIDs = nil
		}
		out[i] = m
	}
	return out
}

func RunB(c CaseB) core.Result {
	res := core.Result{}
	framelike := false
	for _, m := range c.Msgs {
		if len(m.Tail) >= 5 {
			framelike = true
		}
		if len(m.OIDs) > 0 {
			res.Labels = append(res.Labels, "parse-with-oids")
		}
	}
	res.NonTrivial = framelike
	with := play.RunRaw(c.History, play.RawOptions{Stepwise: true})
	h2 := c.History
	h2.Msgs = strip(c.Msgs)
	without := play.RunRaw(h2, play.RawOptions{Stepwise: true})
	if with.Inconclusive != "" || without.Inconclusive != "" {
		res.Inconclusive = with.Inconclusive + without.Inconclusive
		return res
	}
	if len(with.Panics) > 0 {
		res.Sig, res.Violation = "C03/b/panic", "panic: "+with.Panics[0].Value
		return res
	}
	if ok, d := pgwire.CanonEqual(without.Msgs, with.Msgs); !ok {
		res.Sig, res.Violation = "C03/b/surplus-leaks/transcript", fmt.Sprintf("surplus bytes inside a message change the replies: %s\nwithout surplus: %v\nwith surplus:    %v", d, pgwire.Briefs(without.Msgs), pgwire.Briefs(with.Msgs))
		return res
	}
	a, b := normTrace(without.Trace), normTrace(with.Trace)
	if len(a) != len(b) {
		res.Sig, res.Violation = "C03/b/surplus-leaks/trace", fmt.Sprintf("surplus bytes change the callbacks: %d events vs %d", len(b), len(a))
		return res
	}
	for i := range a {
		if a[i] != b[i] {
			res.Sig, res.Violation = "C03/b/surplus-leaks/trace", fmt.Sprintf("surplus bytes change callback event %d: %s vs %s", i, clip(b[i]), clip(a[i]))
			return res
		}
		if strings.Contains(b[i], marker) {
			res.Sig, res.Violation = "C03/b/surplus-reaches-callback", "a callback received bytes of a surplus region: "+clip(b[i])
			return res
		}
	}
	return res
}

// ---- (c) accessor safety -----------------------------------------------------------

type AccOp struct {
	K string `json:"k"` // string | bytes | u16 | u32 | prep
	N int    `json:"n,omitempty"`
}

type CaseC struct {
	Typed   bool    `json:"typed"`
	Body    []byte  `json:"body"`
	Ops     []AccOp `json:"ops"`
	OneByte bool    `json:"one_byte,omitempty"`
	Limit   int     `json:"limit"`
	Next    int     `json:"next"` // size of the sentinel message that follows
}

const sentinel = 0xEE

var quiet = slog.New(slog.NewTextHandler(io.Discard, &slog.HandlerOptions{Level: slog.Level(100)}))

func RunC(c CaseC) (res core.Result) {
	defer func() {
		if r := recover(); r != nil {
			res.Sig, res.Violation = "C03/c/panic", fmt.Sprintf("accessor sequence panicked: %v", r)
		}
	}()
	var stream []byte
	hdr := make([]byte, 4)
	binary.BigEndian.PutUint32(hdr, uint32(len(c.Body)+4))
	if c.Typed {
		stream = append(stream, 'Q')
	}
	stream = append(stream, hdr...)
	stream = append(stream, c.Body...)
	next := bytes.Repeat([]byte{sentinel}, c.Next)
	stream = append(stream, pgwire.Msg('S', next)...)
	var src io.Reader = bytes.NewReader(stream)
	if c.OneByte {
		src = iotest.OneByteReader(src)
	}
	rd := buffer.NewReader(quiet, src, c.Limit)
	var err error
	if c.Typed {
		var t any
		t, _, err = rd.ReadTypedMsg()
		if err == nil && fmt.Sprint(t) != "SimpleQuery" {
			return core.Fail("C03/c/type", "ReadTypedMsg returned type %v", t)
		}
	} else {
		_, err = rd.ReadUntypedMsg()
	}
	if err != nil {
		return core.Fail("C03/c/read", "reading a %d byte message with limit %d failed: %v", len(c.Body), c.Limit, err)
	}
	body := append([]byte{}, c.Body...) // private copy: the independent cursor
	pos := 0
	crossed := false
	type kept struct {
		s    string
		b    []byte
		copy string
	}
	var keep []kept
	for i, op := range c.Ops {
		rem := len(body) - pos
		where := fmt.Sprintf("op %d %s(%d) at offset %d of %d", i, op.K, op.N, pos, len(body))
		switch op.K {
		case "string":
			got, e := rd.GetString()
			j := bytes.IndexByte(body[pos:], 0)
			if j < 0 {
				crossed = true
				if e == nil {
					return core.Fail("C03/c/string-unterminated", "%s: no NUL left in the message but GetString returned %q", where, got)
				}
				continue
			}
			if e != nil {
				return core.Fail("C03/c/string-error", "%s: unexpected error %v", where, e)
			}
			if got != string(body[pos:pos+j]) {
				return core.Fail("C03/c/string-value", "%s: got %q, want %q", where, got, body[pos:pos+j])
			}
			keep = append(keep, kept{s: got, copy: strings.Clone(got)})
			pos += j + 1
		case "bytes", "prep":
			n := op.N
			var got []byte
			var e error
			if op.K == "prep" {
				n = 1
				var p buffer.PrepareType
				p, e = rd.GetPrepareType()
				got = []byte{byte(p)}
			} else {
				got, e = rd.GetBytes(n)
			}
			if n > rem {
				crossed = true
				if e == nil {
					return core.Fail("C03/c/bytes-beyond", "%s: only %d byte(s) left but %d returned: %q", where, rem, len(got), got)
				}
				continue
			}
			if e != nil {
				return core.Fail("C03/c/bytes-error", "%s: unexpected error %v", where, e)
			}
			if !bytes.Equal(got, body[pos:pos+n]) {
				return core.Fail("C03/c/bytes-value", "%s: got %q, want %q", where, got, body[pos:pos+n])
			}
			if op.K == "bytes" {
				keep = append(keep, kept{b: got, copy: string(got)})
			}
			pos += n
		case "u16":
			got, e := rd.GetUint16()
			if rem < 2 {
				crossed = true
				if e == nil {
					return core.Fail("C03/c/u16-beyond", "%s: %d byte(s) left but GetUint16 returned %d", where, rem, got)
				}
				continue
			}
			if e != nil || got != binary.BigEndian.Uint16(body[pos:]) {
				return core.Fail("C03/c/u16-value", "%s: got %d, %v; want %d", where, got, e, binary.BigEndian.Uint16(body[pos:]))
			}
			pos += 2
		case "u32":
			got, e := rd.GetUint32()
			if rem < 4 {
				crossed = true
				if e == nil {
					return core.Fail("C03/c/u32-beyond", "%s: %d byte(s) left but GetUint32 returned %d", where, rem, got)
				}
				continue
			}
			if e != nil || got != binary.BigEndian.Uint32(body[pos:]) {
				return core.Fail("C03/c/u32-value", "%s: got %d, %v; want %d", where, got, e, binary.BigEndian.Uint32(body[pos:]))
			}
			pos += 4
		}
	}
	// the next message must be delivered intact whatever was left unread
	t, n, e := rd.ReadTypedMsg()
	if e != nil || byte(t) != 'S' || n != 4+c.Next || !bytes.Equal(rd.Msg, next) {
		return core.Fail("C03/c/next-message", "after %d accessor calls (offset %d of %d) the following message is not delivered intact: type %q size %d err %v body %q", len(c.Ops), pos, len(body), byte(t), n, e, trunc(rd.Msg))
	}
	for i, k := range keep {
		if (k.b == nil && k.s != k.copy) || (k.b != nil && string(k.b) != k.copy) {
			return core.Fail("C03/c/retained-changed", "value %d returned earlier changed after the next message was read", i)
		}
	}
	if crossed {
		res.Labels = append(res.Labels, "call-crosses-end-of-body")
	}
	res.NonTrivial = crossed
	return res
}

func trunc(b []byte) []byte {
	if len(b) > 40 {
		return b[:40]
	}
	return b
}
