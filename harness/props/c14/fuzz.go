package c14

import (
	"encoding/binary"

	"verif/harness/core"
	"verif/harness/memnet"
	"verif/harness/pgwire"
	"verif/harness/script"
)

// FuzzCase: arbitrary tuple bytes behind a valid header, for a fixed table
// shape; the oracle is safety only: no panic, no wedge, and every returned row
// has exactly the declared number of fields.
type FuzzCase struct {
	Shape  byte   `json:"shape"`
	Tuples []byte `json:"tuples"`
	Cut    byte   `json:"cut"`
}

func FuzzCaseOf(shape byte, tuples []byte, cut byte) FuzzCase {
	return FuzzCase{Shape: shape, Tuples: tuples, Cut: cut}
}

var shapes = [][]string{{"int4", "text"}, {"text"}, {"bool", "int8", "bytea"}, {"uuid", "date", "timestamp", "float8"}}

func RunFuzz(c FuzzCase) core.Result {
	res := core.Result{}
	types := shapes[int(c.Shape)%len(shapes)]
	var cols []script.Col
	for _, t := range types {
		cols = append(cols, script.Col{Name: "c", T: t})
	}
	st := script.Stmt{Cols: cols, Ops: []script.Op{{K: "copyin", Copy: &script.CopySpec{Format: 1, Rows: true, MaxReads: -1, OnAbort: "propagate"}}, {K: "complete", Tag: "COPY"}}}
	cfg := script.Config{SetLimit: true, Limit: 1 << 12}
	cfg.Table.Q = map[string]script.Outcome{q: {Stmts: []script.Stmt{st}}}
	env := script.Start(cfg)
	defer env.Stop()
	s := env.NewSess()
	if r := s.Startup(script.DefaultPairs("u"), nil); r.State != memnet.Idle {
		res.Inconclusive = "startup"
		return res
	}
	s.Send(pgwire.Query(q))
	stream := append([]byte{}, signature...)
	stream = binary.BigEndian.AppendUint32(stream, 0)
	stream = binary.BigEndian.AppendUint32(stream, 0)
	stream = append(stream, c.Tuples...)
	k := int(c.Cut)
	var all []byte
	if k > 0 && k < len(stream) {
		all = append(pgwire.CopyData(stream[:k]), pgwire.CopyData(stream[k:])...)
	} else {
		all = pgwire.CopyData(stream)
	}
	all = append(all, pgwire.CopyDone()...)
	all = append(all, pgwire.Query(q)...) // the connection must still answer (or have been closed cleanly)
	r := s.Send(all)
	if r.State == memnet.Timeout {
		return core.Fail("C14/fuzz/wedge", "no quiescence after a binary COPY stream")
	}
	if ps := env.Panics(); len(ps) > 0 {
		return core.Fail("C14/panic", "binary COPY stream panics the connection: %s", ps[0].Value)
	}
	for _, ev := range env.Trace() {
		if ev.K == "panic" {
			return core.Fail("C14/panic", "BinaryCopyReader.Read panicked: %s", ev.Panic)
		}
		if ev.K == "copy.row" && !ev.IsErr && len(ev.Row) != len(cols) {
			return core.Fail("C14/fuzz/row-shape", "a row with %d fields was returned for %d declared columns", len(ev.Row), len(cols))
		}
	}
	if r.Err != nil {
		return core.Fail("C14/grammar", "%v", r.Err)
	}
	return res
}
