package c14

import (
	"testing"

	"pgregory.net/rapid"

	"verif/harness/core"
	"verif/harness/gen"
)

func TestMain(m *testing.M) {
	core.Main(m, "C14", "cases = table shapes of 1..8 columns over 14 supported types, 0..30 rows of boundary-biased values with NULLs, encoded by the harness into the standard binary COPY stream (signature, flags, optional header extension, tuples, optional -1 trailer) and cut into CopyData messages by a generated chunking (one message, one row per message, fixed sizes 1..64, cuts inside the signature / header / field count / length word / value, empty messages); corruptions: field count 0, n-1, n+1, 65534, field length beyond the stream, negative length other than -1, stream ending mid-row, wrong signature; oracle = rows returned by BinaryCopyReader.Read equal the generated rows then io.EOF for every chunking; corrupted streams yield a non-EOF error at or before the corrupted row, never a panic or an extra row; non-trivial = >= 2 rows and a cut strictly inside a row or the header, or a trailer, or a corruption; distinct = distinct canonical JSON")
}

var copyTypes = []string{"bool", "int2", "int4", "int8", "float4", "float8", "text", "varchar", "name", "bytea", "uuid", "oid", "date", "timestamp", "bpchar", "timestamptz"}

func genCase(t *rapid.T) Case {
	c := Case{}
	nc := rapid.IntRange(1, 8).Draw(t, "ncols")
	c.Cols = gen.Cols(nc, copyTypes).Draw(t, "cols")
	nr := rapid.SampledFrom([]int{0, 1, 2, 2, 3, 5, 30}).Draw(t, "nrows")
	nullPct := rapid.SampledFrom([]int{0, 20, 80}).Draw(t, "null-pct")
	for i := 0; i < nr; i++ {
		row := gen.Row(c.Cols, nullPct, false).Draw(t, "row")
		// values whose bytes are markers of the *text* COPY format mean nothing in a binary stream
		for j, col := range c.Cols {
			if !row[j].IsNull() && rapid.IntRange(0, 5).Draw(t, "marker-value") == 0 {
				switch col.T {
				case "text", "varchar", "bpchar", "name":
					row[j].S = rapid.SampledFrom([]string{"\\.", "\\.\n", "\\.\r\n", "\\N", "a\\.b"}).Draw(t, "marker")
				case "int2":
					row[j].I = 23598 // 0x5C2E
				case "bytea":
					row[j].Y = []byte("\\.")
				}
			}
		}
		c.Rows = append(c.Rows, row)
	}
	if rapid.IntRange(0, 9).Draw(t, "ext?") == 0 {
		c.ExtLen = rapid.IntRange(1, 20).Draw(t, "ext-len")
	}
	c.Trailer = rapid.Bool().Draw(t, "trailer")
	c.Extra = rapid.IntRange(0, 3).Draw(t, "extended") == 0
	if nr > 0 && rapid.IntRange(0, 24).Draw(t, "big-value?") == 0 {
		// one value of 70 KB .. 2 MiB (text / bytea column, added when the table has none)
		col := -1
		for j, cl := range c.Cols {
			if cl.T == "text" || cl.T == "bytea" || cl.T == "varchar" {
				col = j
			}
		}
		if col >= 0 {
			c.Big = &Inflate{Row: rapid.IntRange(0, nr-1).Draw(t, "big-row"), Col: col,
				Len: rapid.SampledFrom([]int{70000, 1<<20 - 40, 1 << 20, 1<<20 + 17, 3 << 19, 2<<20 + 5}).Draw(t, "big-len")}
		}
	}
	stream, starts := c.inflated().stream()
	if c.Big != nil {
		// messages stay below the limit; cuts inside, right behind and well behind the big value
		bigEnd := len(stream)
		if c.Big.Row+1 < len(starts) {
			bigEnd = starts[c.Big.Row+1]
		}
		switch rapid.IntRange(0, 5).Draw(t, "big-chunking") {
		case 0:
		case 1:
			c.Chunks = []int{starts[c.Big.Row] + rapid.IntRange(1, c.Big.Len).Draw(t, "inside-big")}
		case 2:
			c.Chunks = []int{bigEnd}
		case 3:
			c.Chunks = []int{min(len(stream), bigEnd+rapid.IntRange(1, 40).Draw(t, "behind-big"))}
		case 4:
			for n := 0; n < len(stream); n += 65536 {
				c.Chunks = append(c.Chunks, 65536)
			}
		default:
			k := rapid.IntRange(1000, 1<<20).Draw(t, "big-chunk-size")
			for n := 0; n < len(stream); n += k {
				c.Chunks = append(c.Chunks, k)
			}
		}
		c.Corrupt = ""
		return c
	}
	if rapid.IntRange(0, 5).Draw(t, "small-limit?") == 0 && len(stream) > 300 {
		c.Limit = rapid.SampledFrom([]int{256, 1000, 4096}).Draw(t, "limit")
		k := c.Limit - rapid.IntRange(0, 20).Draw(t, "below-limit")
		for n := 0; n+k < len(stream); n += k {
			c.Chunks = append(c.Chunks, k)
		}
		// (the rest, shorter than k, goes into the last message)
		return c
	}
	switch rapid.IntRange(0, 7).Draw(t, "chunking") {
	case 0: // one message
	case 1: // one row per message (header with the first row)
		prev := 0
		for _, s := range starts[min(1, len(starts)):] {
			c.Chunks = append(c.Chunks, s-prev)
			prev = s
		}
	case 2: // fixed size
		k := rapid.IntRange(1, 64).Draw(t, "chunk-size")
		for n := 0; n < len(stream) && len(c.Chunks) < 4000; n += k {
			c.Chunks = append(c.Chunks, k)
		}
	case 3: // cut inside the signature / header
		c.Chunks = []int{rapid.IntRange(1, 18).Draw(t, "header-cut")}
	case 4: // cut inside a field count / length word / value of some row
		if len(starts) > 0 {
			s := rapid.SampledFrom(starts).Draw(t, "row-start")
			c.Chunks = []int{s + rapid.IntRange(1, 9).Draw(t, "into-row")}
		}
	case 5: // a span of 2..4 bytes alone in its own CopyData (e.g. the bytes of a value that look like a text-format marker)
		at := rapid.IntRange(0, max(0, len(stream)-4)).Draw(t, "isolate-at")
		if i := indexOf(stream, []byte("\\.")); i >= 0 && rapid.Bool().Draw(t, "isolate-marker") {
			at = i
		}
		c.Chunks = []int{at, rapid.IntRange(2, 4).Draw(t, "isolate-len")}
		if at == 0 {
			c.Chunks = c.Chunks[1:]
		}
	default: // arbitrary cuts with empty messages interleaved
		n := rapid.IntRange(1, 12).Draw(t, "ncuts")
		for i := 0; i < n; i++ {
			if rapid.IntRange(0, 4).Draw(t, "empty?") == 0 {
				c.Chunks = append(c.Chunks, 0)
			} else {
				c.Chunks = append(c.Chunks, rapid.IntRange(1, max(1, len(stream)/2)).Draw(t, "cut"))
			}
		}
	}
	if nr > 0 && rapid.IntRange(0, 3).Draw(t, "corrupt?") == 0 {
		c.Corrupt = rapid.SampledFrom([]string{"field-count", "field-count", "field-length", "negative-length", "wrong-width", "wrong-width", "truncated", "signature"}).Draw(t, "corruption")
		if c.Corrupt == "wrong-width" && FixedWidth[c.Cols[0].T] == 0 {
			c.Corrupt = "field-length"
		}
		c.At = rapid.IntRange(0, nr-1).Draw(t, "at")
		switch c.Corrupt {
		case "field-count":
			c.Count = rapid.SampledFrom([]int{0, nc - 1, nc + 1, 65534}).Draw(t, "count")
			if c.Count == nc {
				c.Count = nc + 1
			}
		case "field-length", "negative-length", "wrong-width":
			// needs a non-NULL first field
			c.Rows[c.At][0] = gen.Val(c.Cols[0].T, 0, false).Draw(t, "non-null")
			if c.Corrupt == "wrong-width" {
				c.Count = rapid.SampledFrom([]int{0, 1, 4, FixedWidth[c.Cols[0].T]}).Draw(t, "extra-bytes")
			}
		}
	}
	return c
}

func TestProp(t *testing.T) {
	core.RunProp(t, "main", core.Scale(2000), genCase, Run)
}

func FuzzBinaryCopy(f *testing.F) {
	f.Add(byte(0), []byte("\x00\x02\x00\x00\x00\x04\x00\x00\x00\x01\xff\xff\xff\xff"), byte(3))
	f.Add(byte(1), []byte("\x00\x03\x00\x00\x00\x01x"), byte(0))
	f.Add(byte(2), []byte("\xff\xff"), byte(1))
	f.Fuzz(func(t *testing.T, shape byte, tuples []byte, cut byte) {
		if len(tuples) > 512 {
			return
		}
		core.FuzzCase(t, "fuzz", FuzzCaseOf(shape, tuples, cut), RunFuzz)
	})
}

func TestReplay(t *testing.T) {
	core.Replay(t, map[string]func(Case) core.Result{"main": Run})
}
func TestReplayFuzz(t *testing.T) {
	core.Replay(t, map[string]func(FuzzCase) core.Result{"fuzz": RunFuzz})
}

func indexOf(b, sub []byte) int {
	for i := 0; i+len(sub) <= len(b); i++ {
		if string(b[i:i+len(sub)]) == string(sub) {
			return i
		}
	}
	return -1
}
