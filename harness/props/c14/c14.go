// Package c14: binary COPY rows decode to what was sent, however the stream
// is chunked.
package c14

import (
	"encoding/binary"
	"fmt"

	"verif/harness/core"
	"verif/harness/memnet"
	"verif/harness/pgwire"
	"verif/harness/script"
)

type Case struct {
	Cols    []script.Col   `json:"cols"`
	Rows    [][]script.Val `json:"rows"`
	ExtLen  int            `json:"ext_len,omitempty"` // header extension area length
	Trailer bool           `json:"trailer,omitempty"`
	Chunks  []int          `json:"chunks"` // sizes of successive CopyData payloads (0 = empty message); the rest goes into a last message
	// corruption
	Corrupt string `json:"corrupt,omitempty"` // "" | field-count | field-length | negative-length | wrong-width | truncated | signature
	At      int    `json:"at,omitempty"`      // row index the corruption applies to
	Count   int    `json:"count,omitempty"`   // field-count: the count written
	Extra   bool   `json:"extended,omitempty"`
	// Big: the text / bytea value at (Row, Col) is replaced by Len patterned bytes before the stream is
	// encoded (values of a megabyte and more, without storing them in the case)
	Big *Inflate `json:"big,omitempty"`
	// Limit > 0: the server's message limit (default 64 KiB): CopyData messages close to the limit,
	// rows and values straddling their boundaries (the limit is about messages, not about rows)
	Limit int `json:"limit,omitempty"`
}

type Inflate struct {
	Row int `json:"row"`
	Col int `json:"col"`
	Len int `json:"len"`
}

func clipv(s string) string {
	if len(s) > 160 {
		return fmt.Sprintf("%s...(%d bytes)", s[:160], len(s))
	}
	return s
}

func bigLimit(c Case) int {
	if c.Big != nil {
		return 8 << 20
	}
	if c.Limit > 0 {
		return c.Limit
	}
	return 1 << 16
}

// inflated returns the case with the big value materialised.
func (c Case) inflated() Case {
	if c.Big == nil || c.Big.Row >= len(c.Rows) || c.Big.Col >= len(c.Rows[c.Big.Row]) {
		return c
	}
	rows := make([][]script.Val, len(c.Rows))
	for i := range c.Rows {
		rows[i] = append([]script.Val{}, c.Rows[i]...)
	}
	v := &rows[c.Big.Row][c.Big.Col]
	b := make([]byte, c.Big.Len)
	for i := range b {
		b[i] = byte('a' + (i*7+i/251)%26)
	}
	switch v.T {
	case "bytea":
		v.Y, v.Null = b, ""
	case "text", "varchar":
		v.S, v.Null = string(b), ""
	default:
		return c
	}
	c.Rows = rows
	return c
}

// FixedWidth: binary size of the fixed-width types.
var FixedWidth = map[string]int{"bool": 1, "int2": 2, "int4": 4, "oid": 4, "float4": 4, "date": 4, "int8": 8, "float8": 8, "timestamp": 8, "timestamptz": 8, "uuid": 16}

var signature = []byte("PGCOPY\n\377\r\n\000")

// stream encodes the rows; it returns the stream and the offset at which each
// row starts (for classification).
func (c Case) stream() ([]byte, []int) {
	var b []byte
	sig := append([]byte{}, signature...)
	if c.Corrupt == "signature" {
		sig[3] ^= 0x20
	}
	b = append(b, sig...)
	b = binary.BigEndian.AppendUint32(b, 0)
	b = binary.BigEndian.AppendUint32(b, uint32(c.ExtLen))
	for i := 0; i < c.ExtLen; i++ {
		b = append(b, byte(i))
	}
	var starts []int
	for ri, row := range c.Rows {
		starts = append(starts, len(b))
		n := len(row)
		if c.Corrupt == "field-count" && ri == c.At {
			n = c.Count
		}
		b = binary.BigEndian.AppendUint16(b, uint16(n))
		for fi, v := range row {
			if fi >= n {
				break
			}
			if v.IsNull() {
				b = binary.BigEndian.AppendUint32(b, 0xFFFFFFFF)
				continue
			}
			enc := pgwire.Encode(v.T, 1, v.Canon())
			l := uint32(len(enc))
			if ri == c.At && fi == 0 {
				switch c.Corrupt {
				case "field-length":
					// larger than the rest of the stream (a length that stays inside the stream is
					// just another valid stream and cannot be told apart by any reader)
					l = 0x0FFFFFF0
				case "negative-length":
					l = 0xFFFFFFFE
				case "wrong-width":
					// a fixed-width type with a length that is not its width, the declared number of
					// bytes being present (the stream stays consistent): Count extra bytes, or one short
					if w := FixedWidth[v.T]; w > 0 && len(enc) == w {
						if c.Count > 0 {
							enc = append(append([]byte{}, enc...), make([]byte, c.Count)...)
						} else {
							enc = enc[:w-1]
						}
						l = uint32(len(enc))
					}
				}
			}
			b = binary.BigEndian.AppendUint32(b, l)
			b = append(b, enc...)
		}
		for fi := len(row); fi < n && n < 100; fi++ { // surplus fields for n+1
			b = binary.BigEndian.AppendUint32(b, 1)
			b = append(b, 'x')
		}
		if c.Corrupt == "truncated" && ri == c.At {
			cut := len(b) - 1
			if cut > starts[ri] {
				b = b[:cut]
			}
			return b, starts
		}
	}
	if c.Trailer {
		b = binary.BigEndian.AppendUint16(b, 0xFFFF)
	}
	return b, starts
}

const q = "copy t from stdin binary"

func Run(c Case) core.Result {
	res := core.Result{}
	if c.Big != nil {
		c = c.inflated()
		res.Labels = append(res.Labels, fmt.Sprintf("value>=%dKiB", c.Big.Len>>10>>6<<6))
	}
	stream, starts := c.stream()
	// chunking
	var msgs [][]byte
	rest := stream
	cutInside := false
	pos := 0
	isStart := map[int]bool{19 + c.ExtLen: true}
	for _, s := range starts {
		isStart[s] = true
	}
	for _, n := range c.Chunks {
		if n > len(rest) {
			n = len(rest)
		}
		msgs = append(msgs, rest[:n])
		rest = rest[n:]
		pos += n
		if n > 0 && len(rest) > 0 && !isStart[pos] {
			cutInside = true
		}
	}
	if len(rest) > 0 || len(msgs) == 0 {
		msgs = append(msgs, rest)
	}
	lab := func(b bool, s string) {
		if b {
			res.Labels = append(res.Labels, s)
		}
	}
	lab(cutInside, "cut-inside-row-or-header")
	lab(c.Trailer, "trailer")
	lab(c.ExtLen > 0, "header-extension")
	lab(c.Corrupt != "", "corrupt="+c.Corrupt)
	lab(len(msgs) == 1, "single-message")
	lab(len(c.Rows) == 0, "no-rows")
	nulls := 0
	for _, r := range c.Rows {
		for _, v := range r {
			if v.IsNull() {
				nulls++
			}
		}
	}
	lab(nulls > 0, "null-fields")
	res.NonTrivial = (len(c.Rows) >= 2 && cutInside) || c.Trailer || c.Corrupt != ""

	st := script.Stmt{Cols: c.Cols, Ops: []script.Op{{K: "copyin", Copy: &script.CopySpec{Format: 1, Rows: true, MaxReads: -1, OnAbort: "propagate"}}, {K: "complete", Tag: "COPY"}}}
	cfg := script.Config{SetLimit: true, Limit: bigLimit(c)}
	cfg.Table.Q = map[string]script.Outcome{q: {Stmts: []script.Stmt{st}}}
	env := script.Start(cfg)
	defer env.Stop()
	s := env.NewSess()
	if r := s.Startup(script.DefaultPairs("u"), nil); r.State != memnet.Idle {
		res.Inconclusive = "startup"
		return res
	}
	var all []byte
	if c.Extra {
		all = append(all, pgwire.Parse("", q, nil)...)
		all = append(all, pgwire.Bind("", "", nil, nil, nil)...)
		all = append(all, pgwire.Execute("", 0)...)
	} else {
		all = append(all, pgwire.Query(q)...)
	}
	r0 := s.Send(all)
	if len(r0.Msgs) == 0 || r0.Msgs[len(r0.Msgs)-1].Type != 'G' {
		return core.Fail("C14/no-copy-in-response", "COPY did not start: %v", pgwire.Briefs(r0.Msgs))
	}
	all = nil
	for _, m := range msgs {
		all = append(all, pgwire.CopyData(m)...)
	}
	all = append(all, pgwire.CopyDone()...)
	if c.Extra {
		all = append(all, pgwire.Sync()...)
	}
	r := s.Send(all)
	if r.State == memnet.Timeout {
		res.Inconclusive = "copy stream: guard"
		return res
	}
	if ps := env.Panics(); len(ps) > 0 {
		return core.Fail("C14/panic", "binary COPY stream (%s) panics the connection: %s", c.Corrupt, ps[0].Value)
	}
	var rows []script.Event
	for _, ev := range env.Trace() {
		switch ev.K {
		case "panic":
			return core.Fail("C14/panic", "BinaryCopyReader.Read panicked (%s at row %d): %s", c.Corrupt, c.At, ev.Panic)
		case "copy.row":
			rows = append(rows, ev)
		}
	}
	if r.Err != nil {
		return core.Fail("C14/grammar", "%v", r.Err)
	}
	describe := fmt.Sprintf("%d rows x %d cols, stream of %d bytes in %d CopyData message(s) %v, trailer=%v", len(c.Rows), len(c.Cols), len(stream), len(msgs), sizes(msgs), c.Trailer)
	check := func(i int, ev script.Event) string {
		if ev.IsErr {
			return fmt.Sprintf("row %d: Read returned error %q", i, ev.Err)
		}
		want := c.Rows[i]
		if len(ev.Row) != len(want) {
			return fmt.Sprintf("row %d has %d fields, want %d", i, len(ev.Row), len(want))
		}
		for j, v := range want {
			if !pgwire.ValEqual(v.Canon(), ev.Row[j]) {
				return fmt.Sprintf("row %d field %d (%s): got %s, want %s", i, j, v.T, clipv(pgwire.ValString(ev.Row[j])), clipv(pgwire.ValString(v.Canon())))
			}
		}
		return ""
	}
	if c.Corrupt == "" {
		if len(rows) != len(c.Rows)+1 {
			bad := ""
			for _, ev := range rows {
				if ev.IsErr && !ev.EOF {
					bad = ev.Err
				}
			}
			return core.Fail("C14/rows", "%s: reader produced %d results, want %d rows then EOF (first error: %q)", describe, len(rows), len(c.Rows), bad)
		}
		for i := range c.Rows {
			if d := check(i, rows[i]); d != "" {
				return core.Fail("C14/row-value", "%s: %s", describe, d)
			}
		}
		if last := rows[len(rows)-1]; !last.EOF {
			return core.Fail("C14/no-eof", "%s: after the rows Read returned (%v, %q), want io.EOF", describe, last.Row, last.Err)
		}
		tp := pgwire.Types(r.Msgs)
		if (c.Extra && tp != "C Z") || (!c.Extra && tp != "C Z") {
			return core.Fail("C14/cycle", "%s: reply %v, want [C Z]", describe, pgwire.Briefs(r.Msgs))
		}
		return res
	}
	// corrupted: an error (non-EOF) at or before the corrupted row, rows before it intact, nothing fabricated
	if len(rows) == 0 {
		return core.Fail("C14/corrupt/no-result", "%s: no reader result recorded", describe)
	}
	last := rows[len(rows)-1]
	if !last.IsErr || last.EOF {
		return core.Fail("C14/corrupt/accepted", "%s: corruption %q at row %d was not reported as an error: last result (%v, err=%q, eof=%v) after %d results", describe, c.Corrupt, c.At, last.Row, last.Err, last.EOF, len(rows))
	}
	limit := c.At
	if c.Corrupt == "signature" {
		limit = 0
	}
	if len(rows)-1 > limit {
		return core.Fail("C14/corrupt/fabricated-row", "%s: corruption %q at row %d but %d rows were returned before the error", describe, c.Corrupt, c.At, len(rows)-1)
	}
	for i := 0; i < len(rows)-1; i++ {
		if d := check(i, rows[i]); d != "" {
			return core.Fail("C14/corrupt/prefix", "%s: %s", describe, d)
		}
	}
	nE := 0
	for _, m := range r.Msgs {
		if m.Type == 'E' {
			nE++
		}
	}
	if nE != 1 {
		return core.Fail("C14/corrupt/error-count", "%s: %d ErrorResponse messages, want 1: %v", describe, nE, pgwire.Briefs(r.Msgs))
	}
	return res
}

func sizes(m [][]byte) []int {
	out := make([]int, len(m))
	for i := range m {
		out[i] = len(m[i])
	}
	if len(out) > 20 {
		out = out[:20]
	}
	return out
}
