package c19

import (
	"testing"

	"pgregory.net/rapid"

	"verif/harness/core"
	"verif/harness/gen"
	"verif/harness/script"
)

func TestMain(m *testing.M) {
	core.Main(m, "C19", "cases = 0..6 session middlewares (at most one failing, at any position), auth none/accept/reject, terminate hook none/succeeding/failing, a history of 0..8 simple and extended commands (incl. failing ones) ending in Terminate, EOF, or Terminate followed by more queries, sent after the startup reply or pipelined behind the startup packet, on 1..3 connections; non-trivial = >= 2 middlewares and >= 2 commands, or a failing middleware with pipelined commands, or Terminate with trailing bytes; distinct = distinct canonical JSON")
}

func genCase(t *rapid.T) Case {
	c := Case{NMW: rapid.IntRange(0, 6).Draw(t, "nmw"), FailAt: -1}
	if c.NMW > 0 && rapid.IntRange(0, 3).Draw(t, "failing?") == 0 {
		c.FailAt = rapid.IntRange(0, c.NMW-1).Draw(t, "fail-at")
		c.FailErr = gen.SmallErr().Draw(t, "fail-err")
		c.FailNilCtx = rapid.Bool().Draw(t, "fail-returns-nil-context")
	}
	if c.NMW > 0 && rapid.IntRange(0, 2).Draw(t, "deadline-middleware") == 0 {
		c.DeadlineMW = 1 + rapid.IntRange(0, c.NMW-1).Draw(t, "deadline-at")
	}
	c.Auth = rapid.SampledFrom([]string{"none", "none", "accept", "accept", "reject"}).Draw(t, "auth")
	c.Term = rapid.SampledFrom([]string{"none", "ok", "ok", "fail"}).Draw(t, "term")
	c.End = rapid.SampledFrom([]string{"terminate", "eof", "terminate+more"}).Draw(t, "end")
	c.NConn = rapid.SampledFrom([]int{1, 1, 2, 3}).Draw(t, "nconn")
	c.Pipeline = rapid.Bool().Draw(t, "pipeline")
	n := rapid.IntRange(0, 8).Draw(t, "ncmds")
	for i := 0; i < n; i++ {
		switch rapid.IntRange(0, 5).Draw(t, "cmd") {
		case 0, 1, 2:
			c.Cmds = append(c.Cmds, script.CMsg{K: "Q", Query: rapid.SampledFrom([]string{"select 1", "two", "fail", "perr"}).Draw(t, "query")})
		case 3:
			c.Cmds = append(c.Cmds, script.CMsg{K: "P", Query: "select 1"}, script.CMsg{K: "B"}, script.CMsg{K: "E"}, script.CMsg{K: "S"})
		case 4:
			c.Cmds = append(c.Cmds, script.CMsg{K: "P", Name: "s", Query: "fail"}, script.CMsg{K: "B", Name: "s"}, script.CMsg{K: "E"}, script.CMsg{K: "S"})
		default:
			c.Cmds = append(c.Cmds, script.CMsg{K: "S"})
		}
	}
	if rapid.IntRange(0, 3).Draw(t, "unsynced-error-at-end") == 0 {
		// a failing extended message that is NOT followed by Sync: the session ends while the server is discarding
		switch rapid.IntRange(0, 2).Draw(t, "unsynced-kind") {
		case 0:
			c.Cmds = append(c.Cmds, script.CMsg{K: "B", Name: "no-such-statement"})
		case 1:
			c.Cmds = append(c.Cmds, script.CMsg{K: "E", Portal: "no-such-portal"})
		default:
			c.Cmds = append(c.Cmds, script.CMsg{K: "P", Name: "x", Query: "perr"})
		}
	}
	c.OptSeed = rapid.IntRange(0, 1000).Draw(t, "option-order")
	if rapid.Bool().Draw(t, "extra-params") {
		c.Params = [][2]string{{"application_name", gen.CString(40).Draw(t, "app")}}
	}
	return c
}

func TestProp(t *testing.T) {
	core.RunProp(t, "main", core.Scale(2500), genCase, Run)
}

func TestReplay(t *testing.T) {
	core.Replay(t, map[string]func(Case) core.Result{"main": Run})
}

// FuzzGen: coverage-guided search over the same generated cases (thorough tier).
func FuzzGen(f *testing.F) {
	core.FuzzProp(f, "main", genCase, Run)
}
