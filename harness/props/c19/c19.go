// Package c19: session lifecycle - middleware order, context propagation,
// terminate hook.
package c19

import (
	"fmt"
	"time"

	"verif/harness/core"
	"verif/harness/memnet"
	"verif/harness/pgwire"
	"verif/harness/script"
)

type Case struct {
	NMW      int             `json:"nmw"`
	FailAt   int             `json:"fail_at"`        // -1 = no failing middleware
	Auth     string          `json:"auth"`           // none | accept | reject
	Term     string          `json:"term"`           // none | ok | fail
	Cmds     []script.CMsg   `json:"cmds,omitempty"` // command history
	End      string          `json:"end"`            // terminate | eof | terminate+more
	NConn    int             `json:"nconn"`
	Pipeline bool            `json:"pipeline,omitempty"` // commands pipelined behind the startup packet
	Params   [][2]string     `json:"params,omitempty"`
	FailErr  *script.ErrSpec `json:"fail_err,omitempty"`
	// FailNilCtx: the failing middleware returns (nil, err) rather than (ctx, err)
	FailNilCtx bool `json:"fail_nil_ctx,omitempty"`
	// DeadlineAt >= 0: that middleware returns a context with a deadline (a session lifetime limit);
	// -1 = none (the zero value of old replay files means middleware 0, hence the +1 encoding below)
	DeadlineAt int `json:"-"`
	DeadlineMW int `json:"deadline_mw,omitempty"` // DeadlineAt + 1
	OptSeed    int `json:"opt_seed,omitempty"`    // order in which the options are applied (middlewares keep theirs)
}

func table() script.Table {
	return script.Table{Q: map[string]script.Outcome{
		"select 1": {Stmts: []script.Stmt{{Cols: []script.Col{{Name: "a", T: "int4"}}, Ops: []script.Op{{K: "row", Vals: []script.Val{{T: "int4", I: 1}}}, {K: "complete", Tag: "SELECT 1"}}}}},
		"two":      {Stmts: []script.Stmt{{Ops: []script.Op{{K: "complete", Tag: "A"}}}, {Ops: []script.Op{{K: "complete", Tag: "B"}}}}},
		"fail":     {Stmts: []script.Stmt{{Ops: []script.Op{{K: "ret", Err: &script.ErrSpec{Base: "stmt failed"}}}}}},
		"perr":     {Err: &script.ErrSpec{Base: "parse failed"}},
	}}
}

func chain(i, conn int) string {
	if i < 0 {
		return ""
	}
	return fmt.Sprintf("%d:%d:%s", i, conn, chain(i-1, conn))
}

func Run(c Case) core.Result {
	res := core.Result{}
	c.DeadlineAt = c.DeadlineMW - 1
	if c.DeadlineAt >= c.NMW {
		c.DeadlineAt, c.DeadlineMW = -1, 0
	}
	if c.DeadlineAt >= 0 {
		res.Labels = append(res.Labels, "middleware-sets-a-deadline")
	}
	res.Labels = append(res.Labels, fmt.Sprintf("middlewares=%d", c.NMW), "auth="+c.Auth, "term="+c.Term, "end="+c.End)
	if c.FailAt >= 0 {
		res.Labels = append(res.Labels, "failing-middleware")
	}
	res.NonTrivial = (c.NMW >= 2 && len(c.Cmds) >= 2) || (c.FailAt >= 0 && c.Pipeline && len(c.Cmds) > 0) || c.End == "terminate+more"

	cfg := script.Config{Table: table(), SetLimit: true, Limit: 1 << 14, OptSeed: c.OptSeed}
	for i := 0; i < c.NMW; i++ {
		mw := script.MW{}
		if i == c.FailAt {
			mw.Fail = c.FailErr
			mw.NilCtx = c.FailNilCtx
			if mw.Fail == nil {
				mw.Fail = &script.ErrSpec{Base: "middleware failed"}
			}
		}
		if i == c.DeadlineMW-1 {
			mw.Deadline = true
		}
		cfg.MWs = append(cfg.MWs, mw)
	}
	if c.Auth != "none" {
		cfg.Auth = &script.AuthSpec{User: "u", Pass: "good"}
	}
	switch c.Term {
	case "ok":
		cfg.Term = &script.MW{}
	case "fail":
		cfg.Term = &script.MW{Fail: &script.ErrSpec{Base: "terminate hook failed"}}
	}
	env := script.Start(cfg)
	defer env.Stop()
	for k := 0; k < c.NConn; k++ {
		if sig, msg, inc := runConn(env, c); sig != "" || inc != "" {
			res.Sig, res.Violation, res.Inconclusive = sig, msg, inc
			return res
		}
	}
	return res
}

func runConn(env *script.Env, c Case) (sig, msg, inconclusive string) {
	s := env.NewSess()
	s.C.KeepWrites()
	id := s.C.ID
	fail := func(sg, f string, a ...any) (string, string, string) {
		return sg, fmt.Sprintf("connection %d: ", id) + fmt.Sprintf(f, a...), ""
	}
	pairs := append([][2]string{{"user", "u"}, {"database", "db"}}, c.Params...)
	b := pgwire.Startup(pairs)
	if c.Auth == "accept" {
		b = append(b, pgwire.Password("good")...)
	} else if c.Auth == "reject" {
		b = append(b, pgwire.Password("bad")...)
	}
	var cmds []byte
	for _, m := range c.Cmds {
		cmds = append(cmds, m.Bytes()...)
	}
	switch c.End {
	case "terminate":
		cmds = append(cmds, pgwire.Terminate()...)
	case "terminate+more":
		cmds = append(cmds, pgwire.Terminate()...)
		cmds = append(cmds, pgwire.Query("select 1")...)
		cmds = append(cmds, pgwire.Query("two")...)
	}
	if c.Pipeline {
		s.C.Send(append(b, cmds...))
	} else {
		st := s.Send(b)
		if st.State == memnet.Timeout {
			return "", "", "startup: guard"
		}
		if c.Auth == "none" && c.FailAt < 0 {
			// somebody else logs in meanwhile (another user, other parameters): the context of this
			// connection's commands still carries this connection's parameters
			o := env.NewSess()
			o.Startup([][2]string{{"user", "somebody-else"}, {"database", "elsewhere"}, {"application_name", "bystander"}}, nil)
		}
		s.C.Send(cmds)
	}
	if c.End == "eof" {
		s.C.CloseWrite()
	}
	if st := s.C.WaitIdle(script.Guard); st != memnet.Closed {
		if st == memnet.Timeout {
			return "", "", "end of connection: guard"
		}
		return fail("C19/not-closed", "connection still open at the end (end=%s, failing middleware %d, auth %s)", c.End, c.FailAt, c.Auth)
	}
	if ps := env.Panics(); len(ps) > 0 {
		return fail("C19/panic", "%s", ps[0].Value)
	}
	out := s.C.Output()
	msgs, _, perr := pgwire.ParseStream(out)
	if perr != nil {
		return fail("C19/grammar", "%v", perr)
	}
	tr := env.TraceOf(id)
	served := c.Auth != "reject" && c.FailAt < 0
	// timestamps: first ReadyForQuery write
	var firstZ int64 = -1
	for _, w := range s.C.Writes() {
		if len(w.Data) > 0 && w.Data[0] == 'Z' && firstZ < 0 {
			firstZ = w.At
		}
	}
	var mws []script.Event
	var validateAt int64 = -1
	nterm, ncmd := 0, 0
	for _, ev := range tr {
		switch ev.K {
		case "validate":
			validateAt = ev.At
		case "mw":
			mws = append(mws, ev)
		case "terminate":
			nterm++
		case "parse", "stmt":
			ncmd++
		}
	}
	wantMW := c.NMW
	if c.FailAt >= 0 {
		wantMW = c.FailAt + 1
	}
	if c.Auth == "reject" {
		wantMW = 0
	}
	if len(mws) != wantMW {
		return fail("C19/middleware-count", "%d middleware invocations, want %d (registered %d, failing at %d, auth %s)", len(mws), wantMW, c.NMW, c.FailAt, c.Auth)
	}
	for i, ev := range mws {
		if ev.Idx != i {
			return fail("C19/middleware-order", "middleware invocation %d is middleware #%d (registration order expected)", i, ev.Idx)
		}
		if c.Auth == "accept" && ev.At < validateAt {
			return fail("C19/middleware-before-auth", "middleware %d ran before the validator", i)
		}
		if firstZ >= 0 && ev.At > firstZ {
			return fail("C19/middleware-after-ready", "middleware %d ran after the first ReadyForQuery was written", i)
		}
		if i > 0 && (ev.Ctx == nil || len(ev.Ctx.MWKeys) < i || ev.Ctx.MWKeys[i-1] != chain(i-1, id)) {
			return fail("C19/middleware-context", "middleware %d does not see its predecessor's context value (got %v, want %q)", i, ev.Ctx.MWKeys, chain(i-1, id))
		}
		if ev.Ctx.Client["user"] != "u" || !ev.Ctx.TypeMap || ev.Ctx.Remote != s.C.RemoteAddr().String() {
			return fail("C19/middleware-base-context", "middleware %d context lacks client parameters / type map / remote address: %+v", i, *ev.Ctx)
		}
	}
	if !served {
		for _, m := range msgs {
			if m.Type == 'Z' {
				return fail("C19/ready-despite-failure", "ReadyForQuery sent although the session was not established: %v", pgwire.Briefs(msgs))
			}
		}
		if ncmd != 0 || nterm != 0 {
			return fail("C19/command-despite-failure", "%d command callbacks / %d terminate hooks ran although the session was not established", ncmd, nterm)
		}
		return "", "", ""
	}
	// announced server parameters
	announced := map[string]string{}
	for _, m := range msgs {
		if m.Type == 'S' {
			announced[m.Key] = m.Val
		}
	}
	for _, ev := range tr {
		if ev.K != "parse" && ev.K != "stmt" {
			continue
		}
		o := ev.Ctx
		for i := 0; i < c.NMW; i++ {
			if o.MWKeys[i] != chain(i, id) {
				return fail("C19/command-context/middleware-value", "%s(%q): context value of middleware %d is %q, want %q", ev.K, ev.Q, i, o.MWKeys[i], chain(i, id))
			}
		}
		if !dupKey(pairs, "user") && (o.User != "u" || o.Server["session_authorization"] != "u") {
			return fail("C19/command-context/server-params", "%s(%q): the context says user %q / session_authorization %q, this connection's user is \"u\"", ev.K, ev.Q, o.User, o.Server["session_authorization"])
		}
		for _, kv := range pairs {
			if o.Client[kv[0]] != kv[1] && !dupKey(pairs, kv[0]) {
				return fail("C19/command-context/client-params", "%s(%q): client parameter %q=%q, want %q", ev.K, ev.Q, kv[0], o.Client[kv[0]], kv[1])
			}
		}
		if len(o.Server) != len(announced) {
			return fail("C19/command-context/server-params", "%s(%q): server parameters %v, announced %v", ev.K, ev.Q, o.Server, announced)
		}
		for k, v := range announced {
			if o.Server[k] != v {
				return fail("C19/command-context/server-params", "%s(%q): server parameter %q=%q, announced %q", ev.K, ev.Q, k, o.Server[k], v)
			}
		}
		if o.Remote != s.C.RemoteAddr().String() {
			return fail("C19/command-context/remote", "%s(%q): remote address %q, want %q", ev.K, ev.Q, o.Remote, s.C.RemoteAddr())
		}
		if !o.TypeMap {
			return fail("C19/command-context/typemap", "%s(%q): no type map in context", ev.K, ev.Q)
		}
		if o.Deadline && c.DeadlineAt < 0 {
			return fail("C19/command-context/deadline", "%s(%q): the context carries a deadline although nothing configures one: the per-command context must live exactly as long as the command", ev.K, ev.Q)
		}
		if !o.Deadline && c.DeadlineAt >= 0 {
			return fail("C19/command-context/not-derived", "%s(%q): middleware %d returned a context with a deadline, the context of the command reports none: it is not derived from what the middleware chain produced", ev.K, ev.Q, c.DeadlineAt)
		}
		if o.Done {
			return fail("C19/command-context/cancelled-early", "%s(%q): per-command context already cancelled while the callback runs", ev.K, ev.Q)
		}
		if o.Stale != 0 {
			return fail("C19/command-context/not-cancelled", "%s(%q): %d context(s) of earlier commands are not cancelled", ev.K, ev.Q, o.Stale)
		}
	}
	// (the connection is closed from inside the Terminate command, a moment before that command
	// returns and releases its context: give the connection goroutine time to get there)
	for t0 := time.Now(); env.LiveContexts(id) != 0 && time.Since(t0) < script.Guard/2; {
		time.Sleep(200 * time.Microsecond)
	}
	if n := env.LiveContexts(id); n != 0 {
		return fail("C19/contexts-live-after-close", "%d per-command context(s) still not cancelled after the connection ended", n)
	}
	wantTerm := 0
	if c.End != "eof" && c.Term != "none" {
		wantTerm = 1
	}
	if nterm != wantTerm {
		return fail("C19/terminate-hook-count", "terminate hook ran %d time(s), want %d (end=%s)", nterm, wantTerm, c.End)
	}
	// number of command callbacks: parse events = number of Q/P messages (all before Terminate)
	wantParse := 0
	for _, m := range c.Cmds {
		if m.K == "Q" || m.K == "P" {
			wantParse++
		}
	}
	gotParse := 0
	for _, ev := range tr {
		if ev.K == "parse" {
			gotParse++
		}
	}
	if gotParse != wantParse {
		return fail("C19/parse-count", "%d parser calls, want %d (nothing after Terminate may be served)", gotParse, wantParse)
	}
	return "", "", ""
}

func dupKey(p [][2]string, k string) bool {
	n := 0
	for _, kv := range p {
		if kv[0] == k {
			n++
		}
	}
	return n > 1
}
