// Package c04: no client input can crash, wedge or balloon the server.
package c04

import (
	"bytes"
	"fmt"
	"runtime"
	"strings"
	"time"

	"verif/harness/core"
	"verif/harness/memnet"
	"verif/harness/pgwire"
	"verif/harness/play"
	"verif/harness/script"
)

// Case of the session/fresh sub-checks.
type Case struct {
	play.History
	Fresh    []byte        `json:"fresh,omitempty"`    // when set: raw bytes on a fresh connection instead of startup+Msgs
	Fault    *memnet.Fault `json:"fault,omitempty"`    // transport starts failing
	EndEOF   bool          `json:"end_eof"`            // client ends its side after the bytes
	Stepwise bool          `json:"stepwise,omitempty"` // wait for quiescence between messages
	Markers  []string      `json:"markers,omitempty"`  // strings that sit in truncated fields: must never reach a callback
}

var healthy = []byte("select healthy")

func addHealthy(cfg *script.Config) {
	if cfg.Table.Q == nil {
		cfg.Table.Q = map[string]script.Outcome{}
	}
	cfg.Table.Q[string(healthy)] = script.Outcome{Stmts: []script.Stmt{{Cols: []script.Col{{Name: "ok", T: "int4"}}, Ops: []script.Op{{K: "row", Vals: []script.Val{{T: "int4", I: 42}}}, {K: "complete", Tag: "SELECT 1"}}}}}
}

func healthyStartup(cfg script.Config) ([][2]string, *string) {
	if cfg.Auth != nil {
		return [][2]string{{"user", cfg.Auth.User}}, &cfg.Auth.Pass
	}
	return [][2]string{{"user", "h"}}, nil
}

// goroutineDump returns the stacks of all goroutines.
func goroutineDump() string {
	buf := make([]byte, 2<<20)
	return string(buf[:runtime.Stack(buf, true)])
}

// Run: hostile input / faults on one connection, a healthy connection before
// and after, a new connection afterwards.
func Run(c Case) core.Result {
	res := core.Result{}
	cfg := c.Cfg
	addHealthy(&cfg)
	env := script.Start(cfg)
	defer env.Stop()

	// the healthy connection, opened before the hostile one
	hp, hpass := healthyStartup(cfg)
	h := env.NewSess()
	if st := h.Startup(hp, hpass); st.State != memnet.Idle || !script.Ready(st.Msgs) {
		if st.State == memnet.Timeout {
			res.Inconclusive = "healthy startup: guard"
			return res
		}
		// e.g. a limit smaller than the startup packet: not what this property is about
		res.Labels = append(res.Labels, "healthy-startup-impossible")
		return res
	}
	if st := h.Send(pgwire.Query(string(healthy))); pgwire.Types(st.Msgs) != "T D C Z" {
		res.Labels = append(res.Labels, "healthy-query-impossible")
		return res
	}

	// the hostile connection
	x := env.NewConn()
	if c.Segs != nil {
		x.SetSegments(c.Segs, c.Cycle)
	}
	if c.Fault != nil {
		x.SetFault(c.Fault)
	}
	_ = env.L.Deliver(x)
	var sent []byte
	wait := func() bool {
		if x.WaitIdle(script.Guard) == memnet.Timeout {
			return false
		}
		return true
	}
	wedge := func(where string) core.Result {
		dump := goroutineDump()
		// where is the connection's goroutine parked? memnet Read = still waiting for input (fine); anything else = wedged
		if !strings.Contains(dump, "psql-wire.(*Server).serve") {
			res.Inconclusive = where + ": guard expired but no serving goroutine is left"
			return res
		}
		return core.Fail("C04/wedge", "%s: the connection is neither waiting for input nor closed after %v; goroutines:\n%s", where, script.Guard, clipS(dump, 4000))
	}
	if c.Fresh != nil {
		x.Send(c.Fresh)
		sent = c.Fresh
	} else {
		first := play.StartupBytes(c.History, false)
		x.Send(first)
		sent = append(sent, first...)
		if c.Stepwise && !wait() {
			return wedge("after startup")
		}
		for i, m := range c.Msgs {
			b := m.Bytes()
			x.Send(b)
			sent = append(sent, b...)
			if c.Stepwise && !wait() {
				return wedge(fmt.Sprintf("after message %d %s", i, m))
			}
		}
	}
	if c.EndEOF {
		x.CloseWrite()
	}
	if !wait() {
		return wedge("after all input")
	}
	closed, _ := x.ServerClosed()
	faulted, _ := x.Faulted()
	// (1) no crash
	if ps := env.Panics(); len(ps) > 0 {
		return core.Fail("C04/panic", "client input panics the connection goroutine (this terminates the process without the verification hook): %s\n%s", ps[0].Value, clipS(ps[0].Stack, 1500))
	}
	for _, ev := range env.Trace() {
		if ev.K == "panic" {
			return core.Fail("C04/helper-panic", "a library helper called by the handler panicked on client data: %s (query %q)", ev.Panic, ev.Q)
		}
	}
	// (2) handling ends once the input ended or the transport failed
	if (c.EndEOF || faulted) && !closed {
		return core.Fail("C04/not-closed", "the input ended (eof=%v) / the transport failed (fault=%v) but the server did not close the connection", c.EndEOF, faulted)
	}
	// (5) nothing fabricated reaches a callback
	for _, ev := range env.TraceOf(x.ID) {
		for _, mk := range c.Markers {
			if strings.Contains(ev.Q, mk) || bytes.Contains(ev.Data, []byte(mk)) || strings.Contains(ev.Pass, mk) {
				return core.Fail("C04/truncated-field-delivered", "a field of a truncated message reached callback %s: %q", ev.K, clipS(ev.Q+string(ev.Data), 100))
			}
			for _, p := range ev.Params {
				if bytes.Contains(p.Val, []byte(mk)) {
					return core.Fail("C04/truncated-field-delivered", "a parameter of a truncated Bind reached the statement: %q", p.Val)
				}
			}
		}
		if ev.K == "parse" && ev.Q != "" && !bytes.Contains(sent, []byte(ev.Q)) {
			return core.Fail("C04/fabricated/query", "the parser received a query text the client never sent: %q", clipS(ev.Q, 100))
		}
		for _, p := range ev.Params {
			if len(p.Val) > 0 && !bytes.Contains(sent, p.Val) {
				return core.Fail("C04/fabricated/parameter", "a statement received a parameter value the client never sent: %q", clipS(string(p.Val), 100))
			}
		}
		if ev.K == "copy.read" && len(ev.Data) > 0 && !bytes.Contains(sent, ev.Data) {
			return core.Fail("C04/fabricated/copydata", "a COPY handler received data the client never sent: %q", clipS(string(ev.Data), 100))
		}
	}
	// (3) others unaffected
	st := h.Send(pgwire.Query(string(healthy)))
	if st.State == memnet.Timeout {
		return core.Fail("C04/healthy-wedged", "a connection opened before the hostile one no longer answers")
	}
	if pgwire.Types(st.Msgs) != "T D C Z" {
		return core.Fail("C04/healthy-affected", "a connection opened before the hostile one is answered %v, want [T D C Z]", pgwire.Briefs(st.Msgs))
	}
	n := env.NewSess()
	if st := n.Startup(hp, hpass); st.State != memnet.Idle || !script.Ready(st.Msgs) {
		return core.Fail("C04/not-accepting", "a new connection is not served after the hostile one: %v (state %s)", pgwire.Briefs(st.Msgs), st.State)
	}
	// handling ends: once every client has gone away and the server is closed, no library goroutine is left
	env.Stop()
	if d := leaked(); d != "" {
		return core.Fail("C04/goroutine-leak", "library goroutines are still alive 5s after all connections ended and the server was closed:\n%s", clipS(d, 3000))
	}
	return res
}

// leaked waits (bounded) for every goroutine with a psql-wire frame to end and
// returns the stacks of those that remain.
func leaked() string {
	deadline := time.Now().Add(5 * time.Second)
	for {
		var left []string
		for _, g := range strings.Split(goroutineDump(), "\n\n") {
			if strings.Contains(g, "jeroenrinzema/psql-wire.") && !strings.Contains(g, "props/c04.leaked") {
				left = append(left, g)
			}
		}
		if len(left) == 0 {
			return ""
		}
		if time.Now().After(deadline) {
			return strings.Join(left, "\n\n")
		}
		time.Sleep(2 * time.Millisecond)
	}
}

func clipS(s string, n int) string {
	if len(s) > n {
		return s[:n] + "..."
	}
	return s
}

// ---- bounded allocation ------------------------------------------------------------

// Alloc: a message declaring large counts / lengths of which little is delivered.
type Alloc struct {
	Limit int    `json:"limit"`
	Kind  string `json:"kind"`
	N     uint32 `json:"n"`
}

func (a Alloc) frame() (pre []byte, msg []byte, delivered int) {
	be16 := func(v uint32) []byte { return []byte{byte(v >> 8), byte(v)} }
	be32 := func(v uint32) []byte { return []byte{byte(v >> 24), byte(v >> 16), byte(v >> 8), byte(v)} }
	switch a.Kind {
	case "bind-nparams": // N parameters announced, none present
		body := append([]byte{0, 0, 0, 0}, be16(a.N)...)
		return pgwire.Parse("", "select 1", nil), pgwire.Msg('B', body), len(body)
	case "bind-nformats":
		body := append([]byte{0, 0}, be16(a.N)...)
		return pgwire.Parse("", "select 1", nil), pgwire.Msg('B', body), len(body)
	case "bind-value-length": // one parameter of declared length N, 3 bytes present
		body := append([]byte{0, 0, 0, 0, 0, 1}, be32(a.N)...)
		body = append(body, 'a', 'b', 'c')
		return pgwire.Parse("", "select 1", nil), pgwire.Msg('B', body), len(body)
	case "bind-nresultformats":
		body := append([]byte{0, 0, 0, 0, 0, 0}, be16(a.N)...)
		return pgwire.Parse("", "select 1", nil), pgwire.Msg('B', body), len(body)
	case "parse-noids":
		body := append([]byte("\x00select 1\x00"), be16(a.N)...)
		return nil, pgwire.Msg('P', body), len(body)
	case "copy-field-count": // binary COPY row announcing N fields
		body := append([]byte("PGCOPY\n\377\r\n\x00\x00\x00\x00\x00\x00\x00\x00\x00"), be16(a.N)...)
		return pgwire.Query("copy"), pgwire.CopyData(body), len(body)
	case "copy-field-length":
		body := append([]byte("PGCOPY\n\377\r\n\x00\x00\x00\x00\x00\x00\x00\x00\x00\x00\x01"), be32(a.N)...)
		return pgwire.Query("copy"), pgwire.CopyData(body), len(body)
	case "copy-field-length-2msgs": // the huge field is announced in one CopyData, the stream continues in the next
		body := append([]byte("PGCOPY\n\377\r\n\x00\x00\x00\x00\x00\x00\x00\x00\x00\x00\x01"), be32(a.N)...)
		return pgwire.Query("copy"), append(pgwire.CopyData(body), pgwire.CopyData([]byte("xy"))...), len(body) + 2
	case "copy-ext-length-2msgs": // huge header extension length, stream continues in the next CopyData
		body := append([]byte("PGCOPY\n\377\r\n\x00\x00\x00\x00\x00"), be32(a.N)...)
		return pgwire.Query("copy"), append(pgwire.CopyData(body), pgwire.CopyData([]byte("xy"))...), len(body) + 2
	case "frame-length": // frame declaring N bytes, 4 delivered
		return nil, pgwire.RawFrame('Q', a.N, []byte("abcd")), 4
	case "parse-parameters-index": // handler applies ParseParameters to "$N"
		q := fmt.Sprintf("pp $%d", a.N)
		return nil, pgwire.Parse("", q, nil), len(q) + 4
	}
	panic("alloc kind " + a.Kind)
}

func RunAlloc(a Alloc) core.Result {
	res := core.Result{NonTrivial: true, Labels: []string{"kind=" + a.Kind}}
	cp := script.Stmt{Cols: []script.Col{{Name: "a", T: "int4"}}, Ops: []script.Op{{K: "copyin", Copy: &script.CopySpec{Format: 1, Rows: true, MaxReads: -1, OnAbort: "propagate"}}}}
	def := script.Outcome{Stmts: []script.Stmt{{ParseParams: true, Ops: []script.Op{{K: "complete", Tag: "OK"}}}}}
	cfg := script.Config{SetLimit: true, Limit: a.Limit, Table: script.Table{Q: map[string]script.Outcome{"copy": {Stmts: []script.Stmt{cp}}}, Def: &def}}
	env := script.Start(cfg)
	defer env.Stop()
	s := env.NewSess()
	if st := s.Startup([][2]string{{"user", "u"}}, nil); st.State != memnet.Idle {
		res.Inconclusive = "startup"
		return res
	}
	pre, msg, delivered := a.frame()
	if pre != nil {
		if st := s.Send(pre); st.State == memnet.Timeout {
			res.Inconclusive = "prefix: guard"
			return res
		}
	}
	runtime.GC()
	var m0, m1 runtime.MemStats
	runtime.ReadMemStats(&m0)
	s.C.Send(msg)
	st := s.C.WaitIdle(script.Guard)
	runtime.ReadMemStats(&m1)
	if st == memnet.Timeout {
		return core.Fail("C04/alloc/wedge", "%s=%d: no quiescence", a.Kind, a.N)
	}
	if ps := env.Panics(); len(ps) > 0 {
		return core.Fail("C04/panic", "%s=%d panics the connection goroutine: %s", a.Kind, a.N, ps[0].Value)
	}
	for _, ev := range env.Trace() {
		if ev.K == "panic" {
			return core.Fail("C04/helper-panic", "%s=%d: a library helper panicked: %s", a.Kind, a.N, ev.Panic)
		}
	}
	lim := a.Limit
	if lim < 4096 {
		lim = 4096
	}
	// K = 4 MiB covers the 16-bit bounded tables the protocol allows (65535 parameters x descriptor size)
	bound := uint64(4*lim+2*delivered) + 4<<20
	if alloc := m1.TotalAlloc - m0.TotalAlloc; alloc > bound {
		return core.Fail("C04/alloc/balloon", "a message declaring %s=%d with %d body bytes delivered (limit %d) made the server allocate %d bytes (bound %d)", a.Kind, a.N, delivered, a.Limit, alloc, bound)
	}
	s.C.CloseWrite()
	if !s.C.WaitClosed(script.Guard) {
		return core.Fail("C04/alloc/not-closed", "%s=%d: connection not closed after the input ended", a.Kind, a.N)
	}
	return res
}
