package c04

import (
	"runtime"

	"verif/harness/core"
	"verif/harness/memnet"
	"verif/harness/pgwire"
	"verif/harness/script"
)

// Flood: one connection sends the same small packet tens of thousands of
// times. Whatever the server answers, the memory it holds on behalf of the
// connection must not grow with the number of packets.
type Flood struct {
	Kind string `json:"kind"` // sslrequest | gssenc | alternate | sync | flush | empty-query | stray-copydone | error-cycle
	TLS  string `json:"tls,omitempty"`
	N    int    `json:"n"`
}

func (f Flood) packet(i int) []byte {
	switch f.Kind {
	case "sslrequest":
		return pgwire.SSLRequest()
	case "gssenc":
		return pgwire.Untyped(pgwire.CodeGSS, nil)
	case "alternate":
		if i%2 == 0 {
			return pgwire.SSLRequest()
		}
		return pgwire.Untyped(pgwire.CodeGSS, nil)
	case "sync":
		return pgwire.Sync()
	case "flush":
		return pgwire.Flush()
	case "empty-query":
		return pgwire.Query("")
	case "stray-copydone":
		return pgwire.CopyDone()
	case "error-cycle": // (the server has no parser: Parse fails, the rest of the batch is discarded, Sync answers)
		b := append(pgwire.Parse("s", "select healthy", nil), pgwire.Bind("p", "s", nil, nil, nil)...)
		b = append(b, pgwire.Execute("p", 0)...)
		return append(b, pgwire.Sync()...)
	}
	panic("flood kind " + f.Kind)
}

func held() uint64 {
	runtime.GC()
	var m runtime.MemStats
	runtime.ReadMemStats(&m)
	return m.StackInuse + m.HeapAlloc
}

func RunFlood(f Flood) core.Result {
	res := core.Result{NonTrivial: true, Labels: []string{"kind=" + f.Kind, "tls=" + f.TLS}}
	// (no handler callbacks are involved in any flood kind: the harness's own trace must not grow either)
	cfg := script.Config{TLS: f.TLS, SetLimit: true, Limit: 4096, NoParse: f.Kind == "error-cycle"}
	addHealthy(&cfg)
	env := script.Start(cfg)
	defer env.Stop()
	x := env.Dial()
	startupPhase := f.Kind == "sslrequest" || f.Kind == "gssenc" || f.Kind == "alternate"
	if !startupPhase {
		x.Send(pgwire.Startup([][2]string{{"user", "u"}}))
		if x.WaitIdle(script.Guard) != memnet.Idle {
			res.Inconclusive = "startup"
			return res
		}
	}
	send := func(from, to int) memnet.State {
		var b []byte
		for i := from; i < to; i++ {
			b = append(b, f.packet(i)...)
			if len(b) > 1<<16 {
				x.Send(b)
				b = nil
			}
		}
		x.Send(b)
		st := x.WaitIdle(script.Guard)
		x.Take() // drop the replies: they are the harness's memory, not the server's
		return st
	}
	st := send(0, f.N/4)
	if st == memnet.Timeout {
		return core.Fail("C04/flood/wedge", "%s flood: no quiescence", f.Kind)
	}
	m1 := held()
	if st == memnet.Idle {
		st = send(f.N/4, f.N)
		if st == memnet.Timeout {
			return core.Fail("C04/flood/wedge", "%s flood: no quiescence", f.Kind)
		}
	} else {
		res.Labels = append(res.Labels, "connection-ended-early")
	}
	m2 := held()
	if ps := env.Panics(); len(ps) > 0 {
		return core.Fail("C04/panic", "%s flood panics the connection goroutine: %s", f.Kind, ps[0].Value)
	}
	// the transport keeps the raw server bytes (tap): subtract them
	grown := int64(m2) - int64(m1) - int64(x.OutLen())
	if per := float64(grown) / float64(f.N-f.N/4); st == memnet.Idle && grown > 4<<20 && per > 64 {
		return core.Fail("C04/flood/memory-grows-per-packet", "after %d more %s packets on one connection the server holds %d more bytes (stack+heap after GC; %.0f bytes per packet): memory must not grow with the number of packets", f.N-f.N/4, f.Kind, grown, per)
	}
	return res
}
