package c04

import (
	"crypto/tls"
	"fmt"
	"time"

	"verif/harness/core"
	"verif/harness/memnet"
	"verif/harness/pgwire"
	"verif/harness/script"
)

// TLSFault: a complete TLS session (SSLRequest, handshake, startup, query,
// terminate) during which the transport starts failing at a given point.
type TLSFault struct {
	Fault *memnet.Fault `json:"fault,omitempty"`
	Min13 bool          `json:"min13,omitempty"`
}

// RunTLSFault returns the result and the number of raw reads/writes of the run.
func RunTLSFault(c TLSFault) core.Result {
	res, _, _ := runTLSFault(c)
	return res
}

func runTLSFault(c TLSFault) (res core.Result, reads, writes int) {
	res.NonTrivial = c.Fault != nil
	cfg := script.Config{TLS: "cert", SetLimit: true, Limit: 4096}
	if c.Min13 {
		cfg.TLS = "cert13"
	}
	addHealthy(&cfg)
	env := script.Start(cfg)
	defer env.Stop()
	h := env.NewSess()
	if st := h.Startup([][2]string{{"user", "h"}}, nil); st.State != memnet.Idle {
		res.Inconclusive = "healthy startup"
		return
	}
	x := env.NewConn()
	if c.Fault != nil {
		x.SetFault(c.Fault)
	}
	_ = env.L.Deliver(x)
	x.Send(pgwire.SSLRequest())
	done := make(chan struct{})
	go func() {
		defer close(done)
		ce := x.ClientEnd()
		one := make([]byte, 1)
		if _, err := ce.Read(one); err != nil || one[0] != 'S' {
			return
		}
		tc := tls.Client(ce, &tls.Config{InsecureSkipVerify: true})
		if err := tc.Handshake(); err != nil {
			return
		}
		msg := append(pgwire.Startup([][2]string{{"user", "t"}}), pgwire.Query(string(healthy))...)
		msg = append(msg, pgwire.Terminate()...)
		if _, err := tc.Write(msg); err != nil {
			return
		}
		buf := make([]byte, 4096)
		for {
			if _, err := tc.Read(buf); err != nil {
				return
			}
		}
	}()
	select {
	case <-done:
	case <-time.After(script.Guard):
		res = core.Fail("C04/tls/client-wedged", "the TLS client is still blocked %v after the transport fault %+v", script.Guard, c.Fault)
		x.CloseWrite()
		return
	}
	x.CloseWrite()
	if x.WaitIdle(script.Guard) != memnet.Closed {
		res = core.Fail("C04/tls/not-closed", "the server did not close the connection after the TLS session ended / the transport failed (%+v)\n%s", c.Fault, clipS(goroutineDump(), 3000))
		return
	}
	reads, writes, _, _ = x.Counters()
	if ps := env.Panics(); len(ps) > 0 {
		res = core.Fail("C04/panic", "transport fault %+v during a TLS session panics the connection goroutine: %s", c.Fault, ps[0].Value)
		return
	}
	if st := h.Send(pgwire.Query(string(healthy))); pgwire.Types(st.Msgs) != "T D C Z" {
		res = core.Fail("C04/healthy-affected", "after a faulted TLS session another connection is answered %v", pgwire.Briefs(st.Msgs))
		return
	}
	n := env.NewSess()
	if st := n.Startup([][2]string{{"user", "n"}}, nil); !script.Ready(st.Msgs) {
		res = core.Fail("C04/not-accepting", "no new connection is served after a faulted TLS session: %v", pgwire.Briefs(st.Msgs))
		return
	}
	res.Labels = append(res.Labels, fmt.Sprintf("tls13=%v", c.Min13))
	return
}
