package c04

import (
	"fmt"
	"testing"

	"pgregory.net/rapid"

	"verif/harness/core"
	"verif/harness/gen"
	"verif/harness/memnet"
	"verif/harness/pgwire"
	"verif/harness/play"
	"verif/harness/script"
)

func TestMain(m *testing.M) {
	core.Main(m, "C04", "sub-checks: (fresh) byte strings of 0..2 KiB from a grammar of startup-phase fragments (length words 0..8, 2^31, 2^32-1, the magic versions, a TLS hello prefix, random bytes) on a fresh connection of servers with and without TLS/auth; (session) a valid startup followed by generated simple/extended/COPY traffic with every malformation operator, oversized and unknown messages, handlers that call ParseParameters, Parameter.Scan and the binary COPY row reader on client data, markers planted in truncated fields; (faults) for a generated session the transport fails at EVERY read call, EVERY write call and at every message boundary +-1 byte (enumerated), with eof/closed/timeout/reset errors; (alloc) messages declaring counts up to 65535 and lengths up to 2^32-1 of which a few bytes are delivered; oracle = no panic (verification hook + interpreter recover), the connection is closed once input ends or the transport fails (a guard expiry is reported only with a goroutine dump showing the serving goroutine parked outside the transport read), a connection opened before still gets [T D C Z] and a new one is served, TotalAlloc delta <= 4*max(L,4096)+2*delivered+4MiB, no callback receives bytes the client did not send or a field of a truncated message; non-trivial = a malformed/truncated message or a fault after the session prefix; distinct = distinct canonical JSON")
}

var opts = gen.RichOpts{Malformed: true, Oversized: true, Copy: true, Auth: true, Helpers: true, BigErrs: false}

var freshPieces = [][]byte{
	{0, 0, 0, 0}, {0, 0, 0, 1}, {0, 0, 0, 3}, {0, 0, 0, 4}, {0, 0, 0, 7}, {0, 0, 0, 8}, {0x7f, 0xff, 0xff, 0xff}, {0x80, 0, 0, 0}, {0xff, 0xff, 0xff, 0xff}, {0, 0, 0, 16},
	{0, 3, 0, 0}, {0x04, 0xd2, 0x16, 0x2e}, {0x04, 0xd2, 0x16, 0x2f}, {0x04, 0xd2, 0x16, 0x30}, {0, 2, 0, 0},
	[]byte("user\x00u\x00"), []byte("user\x00"), []byte("\x00"), []byte("database\x00db\x00\x00"),
	{0x16, 0x03, 0x01, 0x00, 0x2e, 0x01, 0x00, 0x00, 0x2a, 0x03, 0x03},
	pgwire.SSLRequest(), pgwire.Startup([][2]string{{"user", "u"}}), pgwire.Query("select healthy"), pgwire.CancelRequest(1, 1),
	// request packets cut short or padded: a CancelRequest without / with half of its process id and key,
	// an SSLRequest / GSSENCRequest carrying a body, a start-up packet that is only its version word
	pgwire.Untyped(pgwire.CodeCancel, nil), pgwire.Untyped(pgwire.CodeCancel, []byte{0, 1}), pgwire.Untyped(pgwire.CodeCancel, []byte{0, 0, 0, 1}), pgwire.Untyped(pgwire.CodeCancel, []byte{0, 0, 0, 1, 0, 0, 7}),
	pgwire.Untyped(pgwire.CodeCancel, make([]byte, 12)), pgwire.Untyped(pgwire.CodeSSL, []byte{1, 2, 3}), pgwire.Untyped(pgwire.CodeGSS, []byte{9}), pgwire.Untyped(pgwire.Version30, nil),
}

func genFresh(t *rapid.T) Case {
	c := Case{EndEOF: rapid.IntRange(0, 4).Draw(t, "eof?") != 0}
	c.Cfg.SetLimit, c.Cfg.Limit = true, rapid.SampledFrom([]int{64, 1024, 1 << 16}).Draw(t, "limit")
	c.Cfg.TLS = rapid.SampledFrom([]string{"", "", "empty", "cert"}).Draw(t, "tls")
	if rapid.IntRange(0, 3).Draw(t, "auth?") == 0 {
		c.Cfg.Auth = &script.AuthSpec{User: "u", Pass: "pw"}
	}
	c.Fresh = []byte{}
	n := rapid.IntRange(0, 8).Draw(t, "npieces")
	for i := 0; i < n; i++ {
		if rapid.IntRange(0, 3).Draw(t, "random?") == 0 {
			c.Fresh = append(c.Fresh, rapid.SliceOfN(rapid.Byte(), 0, 300).Draw(t, "bytes")...)
		} else {
			c.Fresh = append(c.Fresh, rapid.SampledFrom(freshPieces).Draw(t, "piece")...)
		}
	}
	if rapid.IntRange(0, 3).Draw(t, "segmented") == 0 {
		c.Segs, c.Cycle = gen.Segments().Draw(t, "segs"), true
	}
	return c
}

func labelSession(c Case) (ls []string, nontrivial bool) {
	for _, m := range c.Msgs {
		if m.K == "raw" {
			nontrivial = true
			if m.Over {
				ls = append(ls, "oversized")
			} else {
				ls = append(ls, "malformed")
			}
		}
	}
	if len(c.Markers) > 0 {
		ls = append(ls, "truncated-field")
	}
	if c.Fault != nil {
		ls = append(ls, "fault")
		nontrivial = true
	}
	if c.Cfg.Auth != nil {
		ls = append(ls, "auth")
	}
	return
}

func genSession(t *rapid.T) Case {
	c := Case{History: gen.Rich(t, opts)}
	c.Stepwise = rapid.Bool().Draw(t, "stepwise")
	c.EndEOF = rapid.IntRange(0, 5).Draw(t, "eof?") != 0
	// messages truncated inside a field a callback would receive
	nm := rapid.IntRange(0, 2).Draw(t, "ntrunc")
	for i := 0; i < nm; i++ {
		mk := fmt.Sprintf("TRUNC-MARK-%d", i)
		var raw []byte
		switch rapid.IntRange(0, 2).Draw(t, "trunc-kind") {
		case 0: // query text without NUL
			raw = pgwire.Msg('Q', []byte("select "+mk))
		case 1: // Bind value whose declared length exceeds the rest of the body
			body := append([]byte{0, 0, 0, 0, 0, 1, 0, 0, 0, 200}, mk...)
			raw = pgwire.Msg('B', body)
		default: // Parse whose query lacks the NUL
			raw = pgwire.Msg('P', append([]byte{0}, []byte("select "+mk)...))
		}
		c.Markers = append(c.Markers, mk)
		at := rapid.IntRange(0, len(c.Msgs)).Draw(t, "trunc-at")
		c.Msgs = append(c.Msgs[:at], append([]script.CMsg{{K: "raw", Data: raw}}, c.Msgs[at:]...)...)
	}
	if rapid.IntRange(0, 3).Draw(t, "segmented") == 0 {
		c.Segs, c.Cycle = gen.Segments().Draw(t, "segs"), true
	}
	return c
}

func runLabelled(c Case) core.Result {
	res := Run(c)
	ls, nt := labelSession(c)
	res.Labels = append(res.Labels, ls...)
	if c.Fresh != nil {
		res.Labels = append(res.Labels, "fresh", "tls="+c.Cfg.TLS)
		nt = len(c.Fresh) > 0
	}
	res.NonTrivial = res.NonTrivial || nt
	return res
}

func TestFresh(t *testing.T) {
	core.RunProp(t, "fresh", core.Scale(1500), genFresh, runLabelled)
}

func TestSession(t *testing.T) {
	core.RunProp(t, "session", core.Scale(1500), genSession, runLabelled)
}

// TestFaults: for each generated session, enumerate every fault position.
func TestFaults(t *testing.T) {
	nsess := core.Scale(12)
	shard, _ := core.Shard()
	total := 0
	for si := -2; si < nsess; si++ {
		var base Case
		if si < 0 {
			// two fixed sessions around the binary COPY row reader: header, rows, end-of-data trailer,
			// CopyDone (si == -1: no CopyDone - the stream simply stops behind the trailer); every
			// position is run with every kind of transport failure
			if shard != 0 {
				continue
			}
			st := script.Stmt{Cols: []script.Col{{Name: "a", T: "int4"}, {Name: "b", T: "text"}}, Ops: []script.Op{{K: "copyin", Copy: &script.CopySpec{Format: 1, Rows: true, MaxReads: -1, OnAbort: "propagate"}}, {K: "complete", Tag: "COPY"}}}
			h := play.History{}
			h.Cfg.SetLimit, h.Cfg.Limit = true, 4096
			h.Cfg.Table.Q = map[string]script.Outcome{"copy rows": {Stmts: []script.Stmt{st}}}
			row := "\x00\x02\x00\x00\x00\x04\x00\x00\x00\x07\x00\x00\x00\x03abc"
			h.Msgs = []script.CMsg{{K: "Q", Query: "copy rows"}, {K: "d", Data: []byte("PGCOPY\n\377\r\n\x00\x00\x00\x00\x00\x00\x00\x00\x00" + row)}, {K: "d", Data: []byte(row + "\xff\xff")}}
			if si == -2 {
				h.Msgs = append(h.Msgs, script.CMsg{K: "c"}, script.CMsg{K: "Q", Query: "copy rows"})
			}
			base = Case{History: h, EndEOF: true, Stepwise: true}
		} else {
			base = Case{History: rapid.Custom(func(t *rapid.T) play.History {
				return gen.Rich(t, gen.RichOpts{Copy: true, Auth: true, Helpers: true, MaxMsgs: 10})
			}).Example(1000*shard + si), EndEOF: true, Stepwise: true}
		}
		// fault free run: count reads, writes and learn the boundaries
		env := script.Start(base.Cfg)
		x := env.NewConn()
		_ = env.L.Deliver(x)
		pos := []int{}
		first := play.StartupBytes(base.History, false)
		x.Send(first)
		x.WaitIdle(script.Guard)
		off := len(first)
		for _, m := range base.Msgs {
			b := m.Bytes()
			pos = append(pos, off-1, off, off+1)
			off += len(b)
			x.Send(b)
			x.WaitIdle(script.Guard)
		}
		x.CloseWrite()
		x.WaitIdle(script.Guard)
		reads, writes, _, written := x.Counters()
		env.Stop()
		kinds := []string{"eof", "closed", "timeout", "reset"}
		run := func(f memnet.Fault) {
			ks := []string{kinds[total%len(kinds)]}
			if si < 0 {
				ks = kinds
			}
			for _, k := range ks {
				f := f
				f.Kind = k
				total++
				c := base
				c.Fault = &f
				core.RunCase(t, "faults", c, runLabelled)
			}
		}
		for k := 1; k <= reads; k++ {
			run(memnet.Fault{ReadCall: k})
		}
		for k := 1; k <= writes; k++ {
			run(memnet.Fault{WriteCall: k})
		}
		for _, p := range pos {
			if p >= 0 {
				run(memnet.Fault{ReadBytes: p, HasRB: true})
			}
		}
		for _, p := range []int{0, 1, 5, written / 2, written - 1} {
			if p >= 0 {
				run(memnet.Fault{WriteBytes: p, HasWB: true})
			}
		}
	}
	core.Count("fault-positions-enumerated", total)
	core.MarkExhaustive("faults (every read call, every write call, every message boundary +-1 per generated session)")
}

// TestCopyRows enumerates binary COPY rows whose announced field count and
// field lengths do or do not fit the table; the handler reads them through the
// library's binary row reader.
func TestCopyRows(t *testing.T) {
	if shard, _ := core.Shard(); shard != 0 {
		return
	}
	hdr := "PGCOPY\n\377\r\n\x00\x00\x00\x00\x00\x00\x00\x00\x00"
	for ncols := 1; ncols <= 3; ncols++ {
		var cols []script.Col
		for i := 0; i < ncols; i++ {
			cols = append(cols, script.Col{Name: "c", T: []string{"int4", "text", "bool"}[i]})
		}
		st := script.Stmt{Cols: cols, Ops: []script.Op{{K: "copyin", Copy: &script.CopySpec{Format: 1, Rows: true, MaxReads: -1, OnAbort: "propagate"}}, {K: "complete", Tag: "COPY"}}}
		for _, nf := range []int{0, ncols - 1, ncols, ncols + 1, ncols + 2, 65535} {
			for _, field := range []string{"\xff\xff\xff\xff", "\x00\x00\x00\x04\x00\x00\x00\x07", "\x00\x00\x00\x01t", "\x00\x00\x00\x09ab"} {
				for _, withHdr := range []bool{true, false} {
					for _, split := range []bool{false, true} {
						row := []byte{byte(nf >> 8), byte(nf)}
						for f := 0; f < nf && f < 8; f++ {
							row = append(row, field...)
						}
						stream := row
						if withHdr {
							stream = append([]byte(hdr), row...)
						}
						c := Case{EndEOF: true, Stepwise: true}
						c.Cfg.SetLimit, c.Cfg.Limit = true, 4096
						c.Cfg.Table.Q = map[string]script.Outcome{"copy": {Stmts: []script.Stmt{st}}}
						c.Msgs = []script.CMsg{{K: "Q", Query: "copy"}}
						if split && len(stream) > 3 {
							k := len(stream) - 3
							c.Msgs = append(c.Msgs, script.CMsg{K: "d", Data: stream[:k]}, script.CMsg{K: "d", Data: stream[k:]})
						} else {
							c.Msgs = append(c.Msgs, script.CMsg{K: "d", Data: stream})
						}
						c.Msgs = append(c.Msgs, script.CMsg{K: "c"}, script.CMsg{K: "Q", Query: "copy"}, script.CMsg{K: "c"})
						core.RunCase(t, "copyrows", c, func(c Case) core.Result {
							r := runLabelled(c)
							r.NonTrivial = true
							r.Labels = append(r.Labels, fmt.Sprintf("fields-vs-columns=%+d", nf-ncols))
							return r
						})
					}
				}
			}
		}
	}
	core.MarkExhaustive("copyrows (1..3 columns x 6 field counts x 4 field encodings x header x split)")
}

// TestTLSFaults enumerates every raw read and write call of a complete TLS
// session as the point where the transport starts failing.
func TestTLSFaults(t *testing.T) {
	if shard, _ := core.Shard(); shard != 0 {
		return
	}
	kinds := []string{"eof", "closed", "timeout", "reset"}
	n := 0
	for _, min13 := range []bool{false, true} {
		_, reads, writes := runTLSFault(TLSFault{Min13: min13})
		core.RunCase(t, "tlsfaults", TLSFault{Min13: min13}, RunTLSFault)
		for k := 1; k <= reads+1; k++ {
			n++
			core.RunCase(t, "tlsfaults", TLSFault{Min13: min13, Fault: &memnet.Fault{ReadCall: k, Kind: kinds[n%4]}}, RunTLSFault)
		}
		for k := 1; k <= writes+1; k++ {
			n++
			core.RunCase(t, "tlsfaults", TLSFault{Min13: min13, Fault: &memnet.Fault{WriteCall: k, Kind: kinds[n%4]}}, RunTLSFault)
		}
	}
	core.Count("tls-fault-positions-enumerated", n)
	core.MarkExhaustive("tlsfaults (every raw read call and write call of a full TLS session, TLS1.2 and TLS1.3 minimum)")
}

// TestFormatCounts enumerates Bind messages whose numbers of parameter and
// result format codes do not fit the statement (inadmissible counts included),
// followed by Describe portal, Execute and Sync.
func TestFormatCounts(t *testing.T) {
	if shard, _ := core.Shard(); shard != 0 {
		return
	}
	for ncols := 0; ncols <= 4; ncols++ {
		var cols []script.Col
		var row []script.Val
		for i := 0; i < ncols; i++ {
			cols = append(cols, script.Col{Name: "c", T: []string{"int4", "text", "bool", "int8"}[i]})
			row = append(row, []script.Val{{T: "int4", I: 7}, {T: "text", S: "x"}, {T: "bool", B: true}, {T: "int8", I: 9}}[i])
		}
		st := script.Stmt{Cols: cols, ScanAs: []string{"int4", "text"}, Ops: []script.Op{{K: "row", Vals: row}, {K: "complete", Tag: "SELECT 1"}}}
		for nrf := 0; nrf <= 6; nrf++ {
			for npf := 0; npf <= 3; npf++ {
				for np := 0; np <= 2; np++ {
					c := Case{EndEOF: true, Stepwise: true}
					c.Cfg.SetLimit, c.Cfg.Limit = true, 4096
					c.Cfg.Table.Q = map[string]script.Outcome{"q": {Stmts: []script.Stmt{st}}}
					b := script.CMsg{K: "B", Portal: "p", Name: "s"}
					for i := 0; i < nrf; i++ {
						b.RFmts = append(b.RFmts, int16(i%2))
					}
					for i := 0; i < npf; i++ {
						b.PFmts = append(b.PFmts, int16((i+1)%2))
					}
					for i := 0; i < np; i++ {
						v := []byte{0, 0, 0, byte(i)}
						b.Params = append(b.Params, &v)
					}
					c.Msgs = []script.CMsg{{K: "P", Name: "s", Query: "q"}, b, {K: "D", Kind: 'P', Portal: "p"}, {K: "E", Portal: "p"}, {K: "S"}, {K: "D", Kind: 'S', Name: "s"}, {K: "S"}}
					core.RunCase(t, "formats", c, func(c Case) core.Result {
						r := runLabelled(c)
						r.NonTrivial = true
						if nrf > 1 && nrf != ncols {
							r.Labels = append(r.Labels, "inadmissible-result-format-count")
						}
						if npf > 1 && npf != np {
							r.Labels = append(r.Labels, "inadmissible-parameter-format-count")
						}
						return r
					})
				}
			}
		}
	}
	core.MarkExhaustive("formats (0..4 columns x 0..6 result codes x 0..3 parameter codes x 0..2 parameters)")
}

// TestFlood: tens of thousands of identical small packets on one connection.
func TestFlood(t *testing.T) {
	if shard, _ := core.Shard(); shard != 0 {
		return
	}
	for _, k := range []string{"sslrequest", "gssenc", "alternate"} {
		for _, tls := range []string{"", "empty", "cert"} {
			core.RunCase(t, "flood", Flood{Kind: k, TLS: tls, N: 60000}, RunFlood)
		}
	}
	for _, k := range []string{"sync", "flush", "empty-query", "stray-copydone", "error-cycle"} {
		core.RunCase(t, "flood", Flood{Kind: k, N: 40000}, RunFlood)
	}
	core.MarkExhaustive("flood (8 packet kinds x TLS configurations, 40-60 thousand packets each)")
}

func TestReplayFlood(t *testing.T) {
	core.Replay(t, map[string]func(Flood) core.Result{"flood": RunFlood})
}

func TestAlloc(t *testing.T) {
	if shard, _ := core.Shard(); shard != 0 {
		return
	}
	for _, L := range []int{64, 4096, 16384} {
		for _, k := range []string{"bind-nparams", "bind-nformats", "bind-nresultformats", "parse-noids", "copy-field-count"} {
			for _, n := range []uint32{0, 1, 255, 256, 32767, 32768, 65534, 65535} {
				core.RunCase(t, "alloc", Alloc{Limit: L, Kind: k, N: n}, RunAlloc)
			}
		}
		for _, k := range []string{"bind-value-length", "copy-field-length", "copy-field-length-2msgs", "copy-ext-length-2msgs", "frame-length", "parse-parameters-index"} {
			for _, n := range []uint32{0, 3, 4, 5, 1 << 16, 1 << 28, 1<<31 - 1, 1 << 31, 1<<31 + 1, 1<<32 - 2, 1<<32 - 1} {
				if k == "parse-parameters-index" && L < 32 {
					continue
				}
				core.RunCase(t, "alloc", Alloc{Limit: L, Kind: k, N: n}, RunAlloc)
			}
		}
	}
	core.MarkExhaustive("alloc (3 limits x 9 declaration kinds x boundary counts/lengths)")
}

// fixed configurations for the byte-level fuzz targets
func fuzzCfg(sel byte) script.Config {
	return rapid.Custom(func(t *rapid.T) script.Config {
		h := gen.Rich(t, opts)
		h.Cfg.Auth = nil
		h.Cfg.Limit = 2048
		return h.Cfg
	}).Example(int(sel % 8))
}

var hostile = [][]byte{
	pgwire.RawFrame('B', 0xFFFFFFFF, nil), pgwire.RawFrame('Q', 0, nil), pgwire.RawFrame('Q', 3, nil), pgwire.RawFrame('d', 0x80000000, []byte("x")),
	pgwire.Msg('B', []byte{0, 0, 0xff, 0xff}), pgwire.Msg('B', []byte{0, 0, 0, 0, 0xff, 0xff}), pgwire.Msg('B', []byte{0, 0, 0, 0, 0, 1, 0xff, 0xff, 0xff, 0xfe}),
	pgwire.Msg('D', nil), pgwire.Msg('D', []byte{0}), pgwire.Msg('E', []byte("x")), pgwire.Msg('P', []byte{0, 's', 0, 0xff, 0xff}),
	append(pgwire.Query("q6"), pgwire.CopyData([]byte("PGCOPY\n\377\r\n\x00\x00\x00\x00\x00\x00\x00\x00\x00\xff\xfe"))...),
	pgwire.Query("select $5"), pgwire.Query("select $18446744073709551616"),
}

func FuzzAfterStartup(f *testing.F) {
	for i, s := range hostile {
		f.Add(byte(i), s)
	}
	f.Fuzz(func(t *testing.T, sel byte, data []byte) {
		if len(data) > 4096 {
			return
		}
		c := Case{History: play.History{Cfg: fuzzCfg(sel), Msgs: []script.CMsg{{K: "raw", Data: data}}}, EndEOF: true}
		core.FuzzCase(t, "fuzz-session", c, runLabelled)
	})
}

func FuzzFresh(f *testing.F) {
	for i, s := range freshPieces {
		f.Add(byte(i), s)
	}
	f.Fuzz(func(t *testing.T, sel byte, data []byte) {
		if len(data) > 4096 {
			return
		}
		cfg := script.Config{SetLimit: true, Limit: 1024, TLS: []string{"", "empty", "cert"}[int(sel)%3]}
		if sel&4 != 0 {
			cfg.Auth = &script.AuthSpec{User: "u", Pass: "pw"}
		}
		c := Case{History: play.History{Cfg: cfg}, Fresh: append([]byte{}, data...), EndEOF: true}
		core.FuzzCase(t, "fuzz-fresh", c, runLabelled)
	})
}

func TestReplay(t *testing.T) {
	core.Replay(t, map[string]func(Case) core.Result{"formats": runLabelled, "copyrows": runLabelled, "fresh": runLabelled, "session": runLabelled, "faults": runLabelled, "fuzz-session": runLabelled, "fuzz-fresh": runLabelled})
}
func TestReplayTLS(t *testing.T) {
	core.Replay(t, map[string]func(TLSFault) core.Result{"tlsfaults": RunTLSFault})
}
func TestReplayAlloc(t *testing.T) {
	core.Replay(t, map[string]func(Alloc) core.Result{"alloc": RunAlloc})
}
