// Package c17: error decorations reach the client field for field.
package c17

import (
	"bytes"
	"fmt"
	"strconv"

	wire "github.com/jeroenrinzema/psql-wire"
	"github.com/jeroenrinzema/psql-wire/pkg/buffer"
	"io"
	"log/slog"

	"verif/harness/core"
	"verif/harness/pgwire"
	"verif/harness/script"
)

// Case: an error as data and the path on which it is delivered.
type Case struct {
	Err  *script.ErrSpec `json:"err"`  // nil = ErrorCode(writer, nil)
	Path string          `json:"path"` // direct | parse | stmt | xparse | xexec
	// Inner > 0: after the full error was built (and reported), the error as it
	// was after Inner-1... i.e. the shared inner value with only the first
	// Inner-1 layers, is reported as well: decorating an error must not change
	// what the error it wraps reports.
	Inner int `json:"inner,omitempty"`
	// CancelSess (paths stmt, xexec): the session context comes from a middleware and the statement
	// cancels it (an application-level kill) before it returns its error: the error still reports
	// what it carries, whatever it wraps and whatever state its context is in.
	CancelSess bool `json:"cancel_sess,omitempty"`
}

var quiet = slog.New(slog.NewTextHandler(io.Discard, &slog.HandlerOptions{Level: slog.Level(100)}))

func labels(c Case) (ls []string, nontrivial bool) {
	ls = append(ls, "path="+c.Path)
	if c.CancelSess {
		ls = append(ls, "session-context-cancelled")
	}
	if c.Err == nil {
		return append(ls, "nil-error"), true
	}
	kinds := map[string]int{}
	wrapBetween := false
	seenDeco := false
	for _, l := range c.Err.Layers {
		kinds[l.K]++
		if l.K == "wrap" || l.K == "tail" {
			if seenDeco {
				wrapBetween = true
			}
		} else {
			seenDeco = true
		}
	}
	for k, n := range kinds {
		ls = append(ls, "has-"+k)
		if n >= 2 && k != "wrap" && k != "tail" {
			ls = append(ls, "repeated-"+k)
			nontrivial = true
		}
	}
	if kinds["source"] > 0 || kinds["constraint"] > 0 {
		nontrivial = true
	}
	if wrapBetween {
		ls = append(ls, "fmt-wrap-over-decorator")
		nontrivial = true
	}
	if len(c.Err.Layers) == 0 {
		ls = append(ls, "undecorated")
	}
	return ls, nontrivial
}

// obtain delivers the error and returns the server messages of that cycle.
func obtain(c Case, prebuilt error) ([]pgwire.BMsg, string) {
	if c.Path == "direct" {
		var sink bytes.Buffer
		w := buffer.NewWriter(quiet, &sink)
		var err error
		if prebuilt != nil {
			err = prebuilt
		} else if c.Err != nil {
			err = c.Err.Build()
		}
		if werr := wire.ErrorCode(w, err); werr != nil {
			return nil, "ErrorCode returned transport error on a healthy sink: " + werr.Error()
		}
		msgs, _, perr := pgwire.ParseStream(sink.Bytes())
		if perr != nil {
			return msgs, "malformed output: " + perr.Error()
		}
		return msgs, ""
	}
	cfg := script.Config{}
	q := "q"
	switch c.Path {
	case "parse", "xparse":
		cfg.Table.Q = map[string]script.Outcome{q: {Err: c.Err}}
	case "stmt", "xexec":
		ops := []script.Op{{K: "ret", Err: c.Err}}
		if c.CancelSess {
			cfg.MWs = []script.MW{{Cancelable: true}}
			ops = append([]script.Op{{K: "cancelsess"}}, ops...)
		}
		cfg.Table.Q = map[string]script.Outcome{q: {Stmts: []script.Stmt{{Ops: ops}}}}
	}
	env := script.Start(cfg)
	defer env.Stop()
	s := env.NewSess()
	st := s.Startup(script.DefaultPairs("u"), nil)
	if st.Err != nil || !script.Ready(st.Msgs) {
		return nil, fmt.Sprintf("startup failed: %v %s", st.Err, pgwire.Types(st.Msgs))
	}
	var b []byte
	switch c.Path {
	case "parse", "stmt":
		b = pgwire.Query(q)
	case "xparse":
		b = append(pgwire.Parse("", q, nil), pgwire.Sync()...)
	case "xexec":
		b = append(pgwire.Parse("", q, nil), pgwire.Bind("", "", nil, nil, nil)...)
		b = append(b, pgwire.Execute("", 0)...)
		b = append(b, pgwire.Sync()...)
	}
	r := s.Send(b)
	if r.Err != nil {
		return r.Msgs, "malformed output: " + r.Err.Error()
	}
	return r.Msgs, ""
}

func Run(c Case) core.Result {
	res := runOne(c, nil)
	if res.Violation != "" || c.Err == nil || c.Inner <= 0 || c.Path != "direct" {
		return res
	}
	k := c.Inner - 1
	if k > len(c.Err.Layers) {
		k = len(c.Err.Layers)
	}
	// build the whole chain first, report the outermost, then report the shared inner value
	all := c.Err.BuildAll()
	var sink bytes.Buffer
	_ = wire.ErrorCode(buffer.NewWriter(quiet, &sink), all[len(all)-1])
	inner := Case{Err: &script.ErrSpec{Base: c.Err.Base, Wraps: c.Err.Wraps, Layers: c.Err.Layers[:k]}, Path: "direct"}
	r2 := runOne(inner, all[k])
	if r2.Violation != "" {
		r2.Sig = "C17/inner-value-changed/" + r2.Sig
		r2.Violation = fmt.Sprintf("after %d further decoration(s) were applied on top of it, the error with the first %d layer(s) no longer reports its own decorations: %s", len(c.Err.Layers)-k, k, r2.Violation)
		r2.Labels, r2.NonTrivial = res.Labels, res.NonTrivial
		return r2
	}
	res.Labels = append(res.Labels, "inner-value-rechecked")
	return res
}

// runOne reports one error; prebuilt (when non-nil) is used instead of building c.Err afresh.
func runOne(c Case, prebuilt error) core.Result {
	ls, nt := labels(c)
	res := core.Result{Labels: ls, NonTrivial: nt}
	msgs, problem := obtain(c, prebuilt)
	if problem != "" {
		res.Sig, res.Violation = "C17/"+c.Path+"/malformed-or-missing", problem
		return res
	}
	var errs []pgwire.BMsg
	for _, m := range msgs {
		if m.Type == 'E' {
			errs = append(errs, m)
		}
	}
	if len(errs) != 1 {
		res.Sig = "C17/" + c.Path + "/error-count"
		res.Violation = fmt.Sprintf("expected exactly one ErrorResponse, got %d in %v", len(errs), pgwire.Briefs(msgs))
		return res
	}
	fields, dup := errs[0].ErrMap()
	if len(dup) > 0 {
		res.Sig, res.Violation = "C17/field-twice", fmt.Sprintf("field code(s) %q occur more than once in %s", dup, errs[0].Brief())
		return res
	}
	if c.Err == nil {
		if fields['S'] != "FATAL" {
			return fail(res, "C17/nil/severity", "nil error: severity %q, want FATAL (%s)", fields['S'], errs[0].Brief())
		}
		if len(fields['C']) != 5 || fields['C'][:2] != "XX" {
			return fail(res, "C17/nil/code", "nil error: SQLSTATE %q, want class XX (%s)", fields['C'], errs[0].Brief())
		}
		if fields['M'] == "" {
			return fail(res, "C17/nil/message", "nil error: empty message (%s)", errs[0].Brief())
		}
		return res
	}
	x := c.Err.Expect()
	want := map[byte]string{'S': x.Severity, 'C': x.Code, 'M': x.Message}
	opt := func(code byte, p *string) {
		if p != nil {
			want[code] = *p
		}
	}
	opt('H', x.Hint)
	opt('D', x.Detail)
	opt('n', x.Constraint)
	opt('F', x.File)
	opt('R', x.Func)
	if x.Line != nil {
		want['L'] = strconv.FormatInt(int64(*x.Line), 10)
	}
	for code, w := range want {
		got, ok := fields[code]
		if !ok {
			return fail(res, "C17/field-missing/"+string(code), "field %q missing: want %q; got %s", code, w, errs[0].Brief())
		}
		if got != w {
			return fail(res, "C17/field-value/"+string(code), "field %q = %q, want %q; got %s", code, got, w, errs[0].Brief())
		}
	}
	for code := range fields {
		if _, ok := want[code]; !ok {
			// 'V' (non-localized severity) would be legitimate protocol-wise but is not produced; anything else is unexpected
			return fail(res, "C17/field-unexpected/"+string(code), "unexpected field %q=%q in %s", code, fields[code], errs[0].Brief())
		}
	}
	return res
}

func fail(res core.Result, sig, format string, a ...any) core.Result {
	res.Sig, res.Violation = sig, fmt.Sprintf(format, a...)
	return res
}
