package c17

import (
	"testing"

	"pgregory.net/rapid"

	"verif/harness/core"
	"verif/harness/gen"
)

func TestMain(m *testing.M) {
	core.Main(m, "C17", "cases = (error tree: base text + 0..10 layers of code/severity/hint/detail/source/constraint/fmt-wrap, delivery path direct|parse|stmt|xparse|xexec); non-trivial = two layers of the same decorator kind (outermost must win), or a source/constraint layer, or fmt wrapping above a decorator, or the nil error; distinct = distinct canonical JSON of the case")
}

func genCase(t *rapid.T) Case {
	c := Case{}
	if rapid.IntRange(0, 7).Draw(t, "path-kind") == 0 {
		c.Path = rapid.SampledFrom([]string{"parse", "stmt", "xparse", "xexec"}).Draw(t, "path")
	} else {
		c.Path = "direct"
	}
	if c.Path == "direct" && rapid.IntRange(0, 39).Draw(t, "nil?") == 0 {
		return c
	}
	c.Err = gen.ErrSpec(10).Draw(t, "err")
	if (c.Path == "stmt" || c.Path == "xexec") && rapid.Bool().Draw(t, "cancel-session") {
		c.CancelSess = true
		if rapid.Bool().Draw(t, "wraps-context-error") {
			c.Err.Wraps = rapid.SampledFrom([]string{"canceled", "deadline"}).Draw(t, "ctx-sentinel")
		}
	}
	if c.Path == "direct" && len(c.Err.Layers) > 0 && rapid.Bool().Draw(t, "recheck-inner") {
		c.Inner = 1 + rapid.IntRange(0, len(c.Err.Layers)-1).Draw(t, "inner")
	}
	return c
}

func TestProp(t *testing.T) {
	core.RunProp(t, "main", core.Scale(6000), genCase, Run)
}

func TestReplay(t *testing.T) {
	core.Replay(t, map[string]func(Case) core.Result{"main": Run})
}

// FuzzGen: coverage-guided search over the same generated cases (thorough tier).
func FuzzGen(f *testing.F) {
	core.FuzzProp(f, "main", genCase, Run)
}
