// Package c06: Extended Query - designated replies, one ReadyForQuery per
// Sync, skip on error.
package c06

import (
	"fmt"

	"verif/harness/core"
	"verif/harness/memnet"
	"verif/harness/model"
	"verif/harness/pgwire"
	"verif/harness/play"
	"verif/harness/script"
)

type Case struct {
	play.History
	Pipelined bool `json:"pipelined,omitempty"`
	// NameFamily: which family of easily-confused names the statement / portal names come from
	NameFamily string `json:"name_family,omitempty"`
}

// classify walks the history with the model and labels it.
func classify(c Case) (labels []string, nontrivial bool) {
	md := model.New(c.Cfg.Table)
	if c.Cfg.CustomCaches {
		md.StmtCap, md.PortalCap = c.Cfg.StmtCap, c.Cfg.PortalCap
	}
	set := map[string]bool{}
	errsInBatch, cleanRun := 0, 0
	for _, m := range c.Msgs {
		wasDiscard := md.Discard
		exp, _ := md.Step(m)
		if m.Over {
			if wasDiscard {
				set["oversized-while-discarding"] = true
			} else {
				set["oversized-in-batch"] = true
			}
			continue
		}
		if wasDiscard && m.K != "S" {
			set["discarded-message"] = true
			nontrivial = true
		}
		isErr := false
		for _, e := range exp {
			if e.T == 'E' {
				isErr = true
				switch m.K {
				case "P":
					set["error-at-parse"] = true
				case "B":
					set["error-at-bind(unknown-statement)"] = true
				case "D":
					set["error-at-describe-"+string(m.Kind)] = true
				case "E":
					rows := 0
					for _, x := range exp {
						if x.T == 'D' {
							rows++
						}
					}
					if e.Why == "Execute: unknown portal "+m.Portal {
						set["error-at-execute(unknown-portal)"] = true
					} else if rows > 0 {
						set["error-at-execute-after-rows"] = true
					} else {
						set["error-at-execute-before-rows"] = true
					}
				case "Q":
					set["simple-query-error"] = true
				default:
					set["error-other("+m.K+")"] = true
				}
			}
		}
		if m.K == "S" {
			if errsInBatch >= 2 {
				set["two-errors-between-syncs"] = true
			}
			if errsInBatch == 0 && cleanRun >= 5 {
				set["clean-batch>=5"] = true
			}
			errsInBatch, cleanRun = 0, 0
			continue
		}
		if isErr {
			errsInBatch++
		} else if !wasDiscard {
			cleanRun++
		}
		if m.K == "H" {
			set["flush"] = true
		}
		if md.InCopy() {
			set["copy-inside-batch"] = true
		}
		if m.K == "Q" {
			set["simple-query-in-history"] = true
		}
	}
	for k := range set {
		labels = append(labels, k)
	}
	for _, k := range c.Carry {
		if k > 0 {
			labels = append(labels, "next-message-partially-received")
			break
		}
	}
	if c.TLS {
		labels = append(labels, "inside-tls")
	}
	if c.Cfg.CustomCaches {
		labels = append(labels, "user-supplied-caches")
		if c.Cfg.StmtCap > 0 || c.Cfg.PortalCap > 0 {
			labels = append(labels, "bounded-user-caches")
		}
	}
	if len(c.Msgs) > 150 {
		labels = append(labels, "long-lived-connection(>150 messages)")
	}
	if c.Pipelined {
		labels = append(labels, "pipelined")
	} else {
		labels = append(labels, "stepwise")
	}
	return
}

func Run(c Case) core.Result {
	res := core.Result{}
	res.Labels, res.NonTrivial = classify(c)
	if c.NameFamily != "" {
		res.Labels = append(res.Labels, "names="+c.NameFamily)
	}
	if !c.Pipelined {
		o := play.Run(c.History, play.Options{Prefix: "C06"})
		res.Inconclusive = o.Inconclusive
		if o.Violation != "" {
			res.Sig, res.Violation = o.Sig, o.Violation
			res.Detail = map[string]any{"transcript": o.Transcript}
		}
		return res
	}
	return runPipelined(c, res)
}

// runPipelined sends the whole history in one write and compares the
// concatenated replies with the model's.
func runPipelined(c Case, res core.Result) core.Result {
	env := script.Start(c.Cfg)
	defer env.Stop()
	s := env.NewSess()
	if c.Segs != nil {
		s.C.SetSegments(c.Segs, c.Cycle)
	}
	st := s.Startup(script.DefaultPairs("u"), nil)
	if st.State == memnet.Timeout {
		res.Inconclusive = "startup guard"
		return res
	}
	if !script.Ready(st.Msgs) {
		res.Sig, res.Violation = "C06/startup", fmt.Sprintf("startup failed: %v", pgwire.Briefs(st.Msgs))
		return res
	}
	md := model.New(c.Cfg.Table)
	if c.Cfg.CustomCaches {
		md.StmtCap, md.PortalCap = c.Cfg.StmtCap, c.Cfg.PortalCap
	}
	var exp []model.Exp
	var evs []model.ExpEv
	var all []byte
	for _, m := range c.Msgs {
		e, v := md.Step(m)
		exp = append(exp, e...)
		evs = append(evs, v...)
		all = append(all, m.Bytes()...)
	}
	before := len(env.Trace())
	step := s.Send(all)
	if step.State == memnet.Timeout {
		res.Inconclusive = "pipelined history: no quiescence within the guard"
		return res
	}
	if ps := env.Panics(); len(ps) > 0 {
		res.Sig, res.Violation = "C06/pipelined/panic", "connection goroutine panicked: "+ps[0].Value
		return res
	}
	if step.Err != nil {
		res.Sig, res.Violation = "C06/pipelined/grammar", step.Err.Error()
		return res
	}
	if d := model.Match(exp, step.Msgs); d != "" {
		res.Sig, res.Violation = "C06/pipelined/reply", d
		return res
	}
	if step.State == memnet.Closed {
		res.Sig, res.Violation = "C06/pipelined/dropped", "the server closed the connection"
		return res
	}
	if d := model.MatchEvents(evs, env.Trace()[before:]); d != "" {
		res.Sig, res.Violation = "C06/pipelined/events", d
	}
	return res
}
