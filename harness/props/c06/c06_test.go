package c06

import (
	"testing"

	"pgregory.net/rapid"

	"verif/harness/core"
	"verif/harness/gen"
	"verif/harness/model"
	"verif/harness/pgwire"
	"verif/harness/script"
)

func TestMain(m *testing.M) {
	core.Main(m, "C06", "cases = histories of 5..40 Parse/Bind/DescribeS/DescribeP/Execute/Close/Flush/Sync/Query/unknown-type/oversized messages over 3 statement and 3 portal names (incl. the unnamed ones), chosen with knowledge of the model state so that known and unknown names are both frequent; parsers fail / return 0,1,2 statements, statement functions fail before or after rows; each message sent alone with quiescence (stepwise) or the whole history in one write (pipelined); non-trivial = a failing extended message followed by >= 1 non-Sync message before the next Sync; distinct = distinct canonical JSON")
}

var stmtNames = []string{"", "a", "b"}
var portalNames = []string{"", "p", "a"} // ("a" is also a statement name: the two namespaces are separate)

const limit = 600

func goodStmt(t *rapid.T, fail string) script.Stmt {
	nc := rapid.IntRange(0, 4).Draw(t, "ncols")
	st := script.Stmt{}
	if nc > 0 {
		st.Cols = gen.Cols(nc, gen.SimpleTypes).Draw(t, "cols")
	}
	if fail == "before" {
		st.Ops = append(st.Ops, script.Op{K: "ret", Err: gen.SmallErr().Draw(t, "err")})
		return st
	}
	nr := rapid.IntRange(0, 3).Draw(t, "nrows")
	if fail == "after" && nr == 0 {
		nr = 1
	}
	if nc == 0 {
		nr = 0
	}
	for i := 0; i < nr; i++ {
		st.Ops = append(st.Ops, script.Op{K: "row", Vals: gen.Row(st.Cols, 15, false).Draw(t, "row")})
	}
	if fail == "after" {
		if nc == 0 {
			st.Ops = append(st.Ops, script.Op{K: "written"})
		}
		st.Ops = append(st.Ops, script.Op{K: "ret", Err: gen.SmallErr().Draw(t, "err")})
		return st
	}
	st.Ops = append(st.Ops, script.Op{K: "complete", Tag: "OK"})
	return st
}

// table: key 0 good, 1 good (other shape), 2 fails before rows, 3 fails after rows, 4 parser error, 5 random outcome
func genTable(t *rapid.T) script.Table {
	tb := script.Table{Q: map[string]script.Outcome{}}
	k := gen.QueryNames
	tb.Q[k[0]] = script.Outcome{Stmts: []script.Stmt{goodStmt(t, "")}}
	tb.Q[k[1]] = script.Outcome{Stmts: []script.Stmt{goodStmt(t, "")}}
	tb.Q[k[2]] = script.Outcome{Stmts: []script.Stmt{goodStmt(t, "before")}}
	tb.Q[k[3]] = script.Outcome{Stmts: []script.Stmt{goodStmt(t, "after")}}
	tb.Q[k[4]] = script.Outcome{Err: gen.SmallErr().Draw(t, "perr")}
	tb.Q[k[5]] = gen.Outcome(gen.SimpleTypes, 2, 4, 6).Draw(t, "outcome")
	// a statement that runs COPY-in to the end of the stream (propagating an abort)
	tb.Q[k[6]] = script.Outcome{Stmts: []script.Stmt{{Cols: []script.Col{{Name: "c", T: "text"}}, Ops: []script.Op{
		{K: "copyin", Copy: &script.CopySpec{Format: int16(rapid.IntRange(0, 1).Draw(t, "copy-format")), MaxReads: -1, OnAbort: "propagate"}},
		{K: "complete", Tag: "COPY"}}}}}
	// a statement function that panics (with or without rows before): inside Execute the library
	// recovers it and the message fails like any other
	ps := goodStmt(t, "after")
	ps.Ops[len(ps.Ops)-1] = script.Op{K: "panic"}
	tb.Q[k[7]] = script.Outcome{Stmts: []script.Stmt{ps}}
	return tb
}

func pickFmts(t *rapid.T, n int) []int16 {
	switch rapid.IntRange(0, 3).Draw(t, "fmt-shape") {
	case 0:
		return nil
	case 1:
		return []int16{int16(rapid.IntRange(0, 1).Draw(t, "fmt"))}
	}
	if n == 0 {
		return nil
	}
	f := make([]int16, n)
	for i := range f {
		f[i] = int16(rapid.IntRange(0, 1).Draw(t, "fmt"))
	}
	return f
}

type builder struct {
	t     *rapid.T
	c     *Case
	md    *model.Model
	fresh map[string]bool // portals bound since the last Sync / simple query
}

func (b *builder) emit(m script.CMsg) {
	if m.K == "C" && m.Kind == 'S' {
		// closing a statement: what happens to portals derived from it is not asserted - stop using them
		if sq, ok := b.md.StmtQuery(m.Name); ok {
			for p := range b.fresh {
				if q, ok2 := b.md.PortalStmt(p); ok2 && q == sq {
					delete(b.fresh, p)
				}
			}
		}
	}
	was := b.md.Discard
	b.md.Step(m)
	if m.K == "B" && !was && b.md.HasPortal(m.Portal) {
		b.fresh[m.Portal] = true
	}
	if m.K == "S" || (m.K == "Q" && !was) {
		b.fresh = map[string]bool{}
	}
	b.c.Msgs = append(b.c.Msgs, m)
}

func (b *builder) bind(portal, stmt string) script.CMsg {
	t := b.t
	m := script.CMsg{K: "B", Portal: portal, Name: stmt}
	np := rapid.IntRange(0, 3).Draw(t, "nparams")
	for j := 0; j < np; j++ {
		v := []byte(rapid.SampledFrom([]string{"1", "x", "", "42"}).Draw(t, "param"))
		m.Params = append(m.Params, &v)
	}
	ncols := 0
	if q, ok := b.md.StmtQuery(stmt); ok {
		if o := b.c.Cfg.Table.Q[q]; len(o.Stmts) == 1 {
			ncols = len(o.Stmts[0].Cols)
		}
	}
	m.RFmts = pickFmts(t, ncols)
	return m
}

func (b *builder) maybeFlush() {
	if rapid.IntRange(0, 5).Draw(b.t, "flush?") == 0 {
		b.emit(script.CMsg{K: "H"})
	}
}

// unknownName returns a name that is not bound in the model.
func (b *builder) unknownStmt() string {
	for _, n := range []string{"zz", "b", "a", ""} {
		if !b.md.HasStmt(n) && rapid.Bool().Draw(b.t, "take") {
			return n
		}
	}
	return "zz"
}

func (b *builder) unknownPortal() string {
	for _, n := range []string{"zz", "q", "p", ""} {
		if !b.md.HasPortal(n) && rapid.Bool().Draw(b.t, "take") {
			return n
		}
	}
	return "zz"
}

// pipeline emits Parse/Bind/(Describe)/Execute for query q with fresh names.
func (b *builder) pipeline(q string, upTo string) (stmt, portal string) {
	t := b.t
	stmt = rapid.SampledFrom(stmtNames).Draw(t, "stmt-name")
	portal = rapid.SampledFrom(portalNames).Draw(t, "portal-name")
	b.emit(script.CMsg{K: "P", Name: stmt, Query: q})
	b.maybeFlush()
	if upTo == "P" {
		return
	}
	if rapid.IntRange(0, 2).Draw(t, "describe-stmt?") == 0 {
		b.emit(script.CMsg{K: "D", Kind: 'S', Name: stmt})
	}
	b.emit(b.bind(portal, stmt))
	if upTo == "B" {
		return
	}
	if rapid.IntRange(0, 2).Draw(t, "describe-portal?") == 0 {
		b.emit(script.CMsg{K: "D", Kind: 'P', Portal: portal})
	}
	b.maybeFlush()
	b.emit(script.CMsg{K: "E", Portal: portal})
	return
}

func (b *builder) randomMsg() script.CMsg {
	t := b.t
	keys := gen.QueryNames[:6]
	anyStmt := func() string {
		if rapid.Bool().Draw(t, "known-stmt?") {
			for _, n := range stmtNames {
				if b.md.HasStmt(n) && rapid.Bool().Draw(t, "take") {
					return n
				}
			}
		}
		return rapid.SampledFrom(append([]string{"zz"}, stmtNames...)).Draw(t, "stmt-name")
	}
	anyPortal := func() string {
		for _, n := range portalNames {
			if b.fresh[n] && b.md.HasPortal(n) && rapid.Bool().Draw(t, "take") {
				return n
			}
		}
		return b.unknownPortal()
	}
	switch rapid.IntRange(0, 9).Draw(t, "random-msg") {
	case 0, 1:
		return script.CMsg{K: "P", Name: rapid.SampledFrom(stmtNames).Draw(t, "stmt-name"), Query: rapid.SampledFrom(keys).Draw(t, "query")}
	case 2, 3:
		return b.bind(rapid.SampledFrom(portalNames).Draw(t, "portal-name"), anyStmt())
	case 4:
		return script.CMsg{K: "D", Kind: 'S', Name: anyStmt()}
	case 5:
		return script.CMsg{K: "D", Kind: 'P', Portal: anyPortal()}
	case 6, 7:
		return script.CMsg{K: "E", Portal: anyPortal()}
	case 8:
		if rapid.Bool().Draw(t, "close-kind") {
			return script.CMsg{K: "C", Kind: 'S', Name: rapid.SampledFrom(stmtNames).Draw(t, "stmt-name")}
		}
		return script.CMsg{K: "C", Kind: 'P', Portal: rapid.SampledFrom(portalNames).Draw(t, "portal-name")}
	}
	if !b.c.Pipelined && rapid.Bool().Draw(t, "oversized?") {
		// answered with one 54000 error in any state; the discard state must survive it
		body := make([]byte, limit+1+rapid.IntRange(0, 50).Draw(t, "over"))
		return script.CMsg{K: "raw", Over: true, Data: pgwire.Msg(rapid.SampledFrom([]byte{'P', 'B', 'Q', 'E'}).Draw(t, "over-type"), body)}
	}
	return script.CMsg{K: "H"}
}

var batchKinds = []string{"copy-in-batch", "clean", "clean", "parse-error", "bind-unknown", "describeS-unknown", "describeP-unknown", "execute-unknown", "execute-fails-before-rows", "execute-fails-after-rows", "execute-panics", "failing-query-in-open-batch", "random", "random", "simple-query", "unknown-type", "close-then-use"}

func genCase(t *rapid.T) Case {
	c := Case{}
	c.Cfg.Table = genTable(t)
	c.Cfg.SetLimit, c.Cfg.Limit = true, limit
	stmtNames, portalNames = []string{"", "a", "b"}, []string{"", "p", "a"}
	if fam, pool := gen.Names(t); fam != "plain" {
		c.NameFamily, stmtNames, portalNames = fam, pool, pool
	}
	c.Pipelined = rapid.IntRange(0, 3).Draw(t, "pipelined?") == 0
	b := &builder{t: t, c: &c, md: model.New(c.Cfg.Table), fresh: map[string]bool{}}
	k := gen.QueryNames
	c.Cfg.OptSeed = rapid.IntRange(0, 1000).Draw(t, "option-order")
	c.Cfg.CustomCaches = rapid.IntRange(0, 3).Draw(t, "custom-caches") == 2
	if c.Cfg.CustomCaches && rapid.Bool().Draw(t, "bounded-caches") {
		// bounded user caches: Parse / Bind of one name too many fails like any other extended message
		c.Cfg.StmtCap = rapid.IntRange(0, 2).Draw(t, "stmt-cap")
		c.Cfg.PortalCap = rapid.IntRange(0, 2).Draw(t, "portal-cap")
		b.md.StmtCap, b.md.PortalCap = c.Cfg.StmtCap, c.Cfg.PortalCap
	}
	nb := rapid.IntRange(1, 5).Draw(t, "nbatches")
	if rapid.IntRange(0, 39).Draw(t, "long-lived") == 17 {
		nb = rapid.IntRange(20, 60).Draw(t, "nbatches-long") // a long-lived connection
	}
	for i := 0; i < nb; i++ {
		kind := rapid.SampledFrom(batchKinds).Draw(t, "batch")
		switch kind {
		case "clean":
			n := rapid.IntRange(1, 3).Draw(t, "npipelines")
			for j := 0; j < n; j++ {
				b.pipeline(rapid.SampledFrom(k[:2]).Draw(t, "good-query"), "E")
			}
		case "copy-in-batch":
			// Execute starts COPY-in; the stream ends with CopyDone (success) or is aborted by CopyFail /
			// a foreign message (one ErrorResponse, then everything up to Sync is discarded)
			b.pipeline(k[6], "E")
			if b.md.InCopy() {
				for j, n := 0, rapid.IntRange(0, 3).Draw(t, "ncopydata"); j < n; j++ {
					b.emit(script.CMsg{K: "d", Data: []byte(rapid.StringMatching(`[a-z]{0,8}`).Draw(t, "chunk"))})
					if rapid.IntRange(0, 3).Draw(t, "flush-in-copy") == 0 {
						b.emit(script.CMsg{K: rapid.SampledFrom([]string{"H", "S"}).Draw(t, "hs")})
					}
				}
				switch rapid.IntRange(0, 3).Draw(t, "copy-end") {
				case 0:
					b.emit(script.CMsg{K: "f", Data: []byte("abort")})
				case 1:
					b.emit(script.CMsg{K: "P", Name: "x", Query: k[0]})
				default:
					b.emit(script.CMsg{K: "c"})
				}
			}
		case "parse-error":
			b.pipeline(k[4], "P")
		case "bind-unknown":
			b.emit(b.bind(rapid.SampledFrom(portalNames).Draw(t, "portal-name"), b.unknownStmt()))
		case "describeS-unknown":
			b.emit(script.CMsg{K: "D", Kind: 'S', Name: b.unknownStmt()})
		case "describeP-unknown":
			b.emit(script.CMsg{K: "D", Kind: 'P', Portal: b.unknownPortal()})
		case "execute-unknown":
			b.emit(script.CMsg{K: "E", Portal: b.unknownPortal()})
		case "execute-fails-before-rows":
			b.pipeline(k[2], "E")
		case "execute-fails-after-rows":
			b.pipeline(k[3], "E")
		case "execute-panics":
			b.pipeline(k[7], "E")
		case "bind-with-odd-format-count":
			// a Bind whose number of parameter format codes is neither 0, 1 nor the number of values: the
			// property does not say whether it is served or refused - but it is answered: BindComplete, or
			// one ErrorResponse with the rest of the batch skipped (stepwise cases only: the outcome decides
			// what the following messages mean)
			if c.Pipelined {
				b.pipeline(k[0], "E")
				break
			}
			stmt, portal := b.pipeline(k[0], "P")
			m := script.CMsg{K: "B", Portal: portal, Name: stmt, AltFail: true}
			nv := rapid.IntRange(0, 3).Draw(t, "nvalues")
			for j := 0; j < nv; j++ {
				v := []byte("v")
				m.Params = append(m.Params, &v)
			}
			nf := rapid.SampledFrom([]int{2, 3, 5}).Draw(t, "nformats")
			if nf == nv {
				nf++
			}
			for j := 0; j < nf; j++ {
				m.PFmts = append(m.PFmts, int16(rapid.IntRange(0, 1).Draw(t, "pfmt")))
			}
			b.emit(m)
			delete(b.fresh, portal) // (how its parameters are tagged is not settled either: it is not executed)
			b.emit(script.CMsg{K: "D", Kind: 'P', Portal: portal})
		case "failing-query-in-open-batch":
			// a simple Query is its own cycle wherever it stands: failing after Parse / Bind without a Sync
			// in between, it is still answered ErrorResponse + ReadyForQuery and nothing is discarded
			_, p := b.pipeline(k[0], rapid.SampledFrom([]string{"P", "B"}).Draw(t, "open-up-to"))
			b.emit(script.CMsg{K: "Q", Query: rapid.SampledFrom([]string{k[2], k[3], k[4]}).Draw(t, "failing-query")})
			if b.md.HasPortal(p) {
				b.emit(script.CMsg{K: "E", Portal: p})
			}
			b.emit(script.CMsg{K: "Q", Query: k[0]})
		case "simple-query":
			b.emit(script.CMsg{K: "Q", Query: rapid.SampledFrom(k[:6]).Draw(t, "query")})
		case "unknown-type":
			if !c.Pipelined && !b.md.Discard {
				tb := rapid.SampledFrom([]byte{'Y', 'z', '0', 'p', 0x01}).Draw(t, "unknown-type")
				b.emit(script.CMsg{K: "raw", Data: []byte{tb, 0, 0, 0, 4}})
			}
		case "close-then-use":
			stmt, portal := b.pipeline(k[0], "B")
			if rapid.Bool().Draw(t, "close-stmt?") {
				b.emit(script.CMsg{K: "C", Kind: 'S', Name: stmt})
				b.emit(script.CMsg{K: rapid.SampledFrom([]string{"D", "B"}).Draw(t, "use"), Kind: 'S', Name: stmt, Portal: "q"})
			} else {
				b.emit(script.CMsg{K: "C", Kind: 'P', Portal: portal})
				b.emit(script.CMsg{K: rapid.SampledFrom([]string{"D", "E"}).Draw(t, "use"), Kind: 'P', Portal: portal})
			}
		}
		// the tail of the batch: messages that are processed (clean) or must be discarded (after an error)
		nt := rapid.IntRange(0, 4).Draw(t, "tail")
		for j := 0; j < nt; j++ {
			b.emit(b.randomMsg())
		}
		b.emit(script.CMsg{K: "S"})
	}
	if rapid.IntRange(0, 4).Draw(t, "segmented?") == 0 {
		c.Segs = gen.Segments().Draw(t, "segs")
		c.Cycle = true
	}
	c.TLS = !c.Pipelined && rapid.IntRange(0, 7).Draw(t, "inside-tls") == 3
	if !c.Pipelined && rapid.IntRange(0, 2).Draw(t, "carry?") == 0 {
		// the head of the next message arrives together with a message: its reply must not wait for the rest
		for range c.Msgs {
			c.Carry = append(c.Carry, rapid.SampledFrom([]int{0, 0, 1, 2, 4, 5, 7}).Draw(t, "carry"))
		}
	}
	return c
}

func TestProp(t *testing.T) {
	core.RunProp(t, "main", core.Scale(1500), genCase, Run)
}

func TestReplay(t *testing.T) {
	core.Replay(t, map[string]func(Case) core.Result{"main": Run})
}

// FuzzGen: coverage-guided search over the same generated cases (thorough tier).
func FuzzGen(f *testing.F) {
	core.FuzzProp(f, "main", genCase, Run)
}
