// Package c15: concurrent connections are isolated and free of data races.
package c15

import (
	"fmt"
	"runtime"
	"strings"
	"sync"
	"sync/atomic"

	"verif/harness/core"
	"verif/harness/memnet"
	"verif/harness/pgwire"
	"verif/harness/script"
)

type Case struct {
	Cfg      script.Config   `json:"cfg"`
	Sessions [][]script.CMsg `json:"sessions"`
	Schedule []int           `json:"schedule,omitempty"` // owned interleaving (nil = free running)
	// Staller: one more connection that is stuck half way through something while the sessions
	// run: "oversized-partial" (header + part of the body of an oversized message),
	// "message-partial" (part of an ordinary message), "" (none). It must not affect the others.
	Staller string `json:"staller,omitempty"`
	// Prelude: connections that came and went before the sessions start: "served" (start-up,
	// Terminate), "startup-abort" (half a start-up packet, then gone), "ssl-abort" (SSLRequest
	// answered, then gone), "ssl-garbage" (SSLRequest, then bytes that are no TLS handshake),
	// "tls-no-startup" (TLS negotiated, then gone). What they left behind must not reach the sessions.
	Prelude []string `json:"prelude,omitempty"`
	// Auth: clear-text passwords, one per user (session i logs in with its own; sessions listed in
	// WrongPw send the password of their neighbour and are turned away - alone and in company alike)
	Auth    bool  `json:"auth,omitempty"`
	WrongPw []int `json:"wrong_pw,omitempty"`
	// SharedUsers > 0: only that many distinct users; sessions i and i+SharedUsers share credentials
	SharedUsers int `json:"shared_users,omitempty"`
}

func (c Case) password(i int) *string {
	if !c.Auth {
		return nil
	}
	p := fmt.Sprintf("pw:user%d", userOf(i))
	for _, j := range c.WrongPw {
		if j == i {
			p = fmt.Sprintf("pw:user%d", userOf(i)+1)
		}
	}
	return &p
}

// sharedUsers > 0: sessions i and i+sharedUsers log in as the same user (same credentials, different
// application names): set per case by Run (cases run one at a time in a process).
var sharedUsers int

func userOf(i int) int {
	if sharedUsers > 0 {
		return i % sharedUsers
	}
	return i
}

func prelude(env *script.Env, kind string) (ended bool) {
	ended = true
	switch kind {
	case "served":
		s := env.NewSess()
		s.Startup([][2]string{{"user", "prelude"}}, nil)
		s.C.Send(pgwire.Terminate())
		s.C.CloseWrite()
		s.C.WaitClosed(script.Guard)
	case "startup-abort":
		c := env.Dial()
		c.Send(pgwire.Startup([][2]string{{"user", "prelude"}})[:11])
		c.WaitIdle(script.Guard)
		c.CloseWrite()
		c.WaitClosed(script.Guard)
	case "ssl-abort", "ssl-garbage":
		c := env.Dial()
		c.Send(pgwire.SSLRequest())
		c.WaitIdle(script.Guard)
		if kind == "ssl-garbage" {
			c.Send([]byte("GET / HTTP/1.1\r\nHost: prelude\r\n\r\n"))
			c.WaitIdle(script.Guard)
		}
		c.CloseWrite()
		c.WaitClosed(script.Guard)
	case "cancel":
		c := env.Dial()
		c.Send(pgwire.CancelRequest(7, 7))
		ended = c.WaitClosed(script.Guard)
	case "tls-no-startup":
		if ts, err := env.NewTLSSess(); err == nil {
			ts.C.CloseWrite()
			ts.C.WaitClosed(script.Guard)
		}
	}
	return ended
}

type sessResult struct {
	canon []string
	trace []string
	inc   string
	err   string
}

func norm(tr []script.Event) []string {
	var out []string
	for _, ev := range tr {
		ev.At, ev.Conn, ev.Out0, ev.Out1 = 0, 0, 0, 0
		if ev.Ctx != nil {
			c := *ev.Ctx
			c.Remote = ""
			ev.Ctx = &c
		}
		b, _ := core.MarshalCase(ev)
		out = append(out, string(b))
	}
	return out
}

type runner struct {
	env  *script.Env
	sess []*script.Sess
	msgs [][]script.CMsg
	next []int
	res  []sessResult
	pass func(i int) *string
	// expired: a session of this run already waited for the whole guard: the others do not wait again
	// (their turn would cost the guard each; one unanswered session is what the evidence check needs)
	expired atomic.Bool
}

// startupPairs: what session i announces (different users; every other session also an
// application name and further run-time parameters, as psql / JDBC do)
func startupPairs(i int) [][2]string {
	p := [][2]string{{"user", fmt.Sprintf("user%d", userOf(i))}, {"database", "db"}}
	if i%2 == 0 || sharedUsers > 0 {
		p = append(p, [2]string{"application_name", fmt.Sprintf("app-%d", i)}, [2]string{"client_encoding", "UTF8"}, [2]string{"options", fmt.Sprintf("-c search_path=s%d", i)})
	}
	return p
}

func (r *runner) passOf(i int) *string {
	if r.pass == nil {
		return nil
	}
	return r.pass(i)
}

func (r *runner) start(i int) bool {
	if r.expired.Load() {
		r.res[i].inc = "not started: another session of the run got no answer"
		return false
	}
	s := r.env.NewSess()
	r.sess[i] = s
	st := s.Startup(startupPairs(i), r.passOf(i))
	if st.State == memnet.Timeout {
		r.res[i].inc = "startup guard"
		r.expired.Store(true)
		return false
	}
	if st.Err != nil {
		r.res[i].err = st.Err.Error()
		return false
	}
	r.res[i].canon = append(r.res[i].canon, pgwire.Canon(st.Msgs)...)
	return st.State == memnet.Idle
}

func (r *runner) step(i int) bool {
	if r.next[i] >= len(r.msgs[i]) {
		return false
	}
	if r.expired.Load() {
		if r.res[i].inc == "" {
			r.res[i].inc = "stopped: another session of the run got no answer"
		}
		return false
	}
	m := r.msgs[i][r.next[i]]
	r.next[i]++
	st := r.sess[i].Send(m.Bytes())
	if st.State == memnet.Timeout {
		r.res[i].inc = "guard"
		r.expired.Store(true)
		return false
	}
	if st.Err != nil {
		r.res[i].err = st.Err.Error()
		return false
	}
	r.res[i].canon = append(r.res[i].canon, fmt.Sprintf("-- reply to message %d %s", r.next[i]-1, m))
	r.res[i].canon = append(r.res[i].canon, pgwire.Canon(st.Msgs)...)
	return st.State == memnet.Idle
}

func (r *runner) finish() {
	for i, s := range r.sess {
		if s != nil {
			r.res[i].trace = norm(r.env.TraceOf(s.C.ID))
		}
	}
}

func newRunner(cfg script.Config, msgs [][]script.CMsg) *runner {
	n := len(msgs)
	return &runner{env: script.Start(cfg), sess: make([]*script.Sess, n), msgs: msgs, next: make([]int, n), res: make([]sessResult, n)}
}

func Run(c Case) core.Result {
	res := core.Result{}
	n := len(c.Sessions)
	res.Labels = append(res.Labels, fmt.Sprintf("sessions=%d", n))
	if c.Schedule == nil {
		res.Labels = append(res.Labels, "free-running")
	} else {
		res.Labels = append(res.Labels, "owned-interleaving")
	}
	if c.Cfg.SharePlans {
		res.Labels = append(res.Labels, "handler-side-plan-cache")
	}
	mark := core.RaceMark()

	// concurrent run
	sharedUsers = c.SharedUsers
	if c.SharedUsers > 0 {
		res.Labels = append(res.Labels, "several-sessions-per-user")
	}
	if c.Auth {
		c.Cfg.Auth = &script.AuthSpec{PerUser: true, Pass: "pw"}
		res.Labels = append(res.Labels, "password-logins")
		if len(c.WrongPw) > 0 {
			res.Labels = append(res.Labels, "some-logins-rejected")
		}
	}
	cr := newRunner(c.Cfg, c.Sessions)
	cr.pass = c.password
	for _, k := range c.Prelude {
		if !prelude(cr.env, k) {
			break // an earlier connection that is not dealt with: the sessions below will show why
		}
	}
	if len(c.Prelude) > 0 {
		res.Labels = append(res.Labels, "earlier-connections")
		for _, k := range c.Prelude {
			if strings.HasPrefix(k, "ssl") || strings.HasPrefix(k, "tls") {
				res.Labels = append(res.Labels, "earlier-connection="+k)
			}
		}
	}
	if c.Staller != "" {
		res.Labels = append(res.Labels, "staller="+c.Staller)
		switch c.Staller {
		case "connected-silent", "startup-partial", "ssl-request-only":
			// a client that has connected and sends nothing / half a start-up packet / an SSLRequest and
			// then nothing: it keeps its own connection busy, nobody else's
			x := cr.env.Dial()
			switch c.Staller {
			case "startup-partial":
				x.Send(pgwire.Startup([][2]string{{"user", "staller"}})[:9])
			case "ssl-request-only":
				x.Send(pgwire.SSLRequest())
			}
			// (no waiting for quiescence here: where the server reads these bytes is its business)
		default:
			st := cr.env.NewSess()
			var spw *string
			if c.Auth {
				p := "pw:staller"
				spw = &p
			}
			if r := st.Startup([][2]string{{"user", "staller"}}, spw); r.State == memnet.Idle {
				lim := c.Cfg.Limit
				if lim <= 0 {
					lim = 1 << 24
				}
				switch c.Staller {
				case "oversized-partial":
					st.C.Send(pgwire.RawFrame('Q', uint32(lim+4+5000), []byte("stalled body")))
				case "message-partial":
					st.C.Send(pgwire.Query("select 1")[:7])
				}
				st.C.WaitIdle(script.Guard)
			}
		}
	}
	if c.Schedule == nil {
		var wg sync.WaitGroup
		startGate := make(chan struct{})
		for i := 0; i < n; i++ {
			wg.Add(1)
			go func(i int) {
				defer wg.Done()
				<-startGate
				if cr.start(i) {
					for cr.step(i) {
					}
				}
			}(i)
		}
		close(startGate)
		wg.Wait()
	} else {
		alive := make([]bool, n)
		for i := 0; i < n; i++ {
			alive[i] = cr.start(i)
		}
		for _, i := range c.Schedule {
			if i < n && alive[i] {
				alive[i] = cr.step(i)
			}
		}
		for i := 0; i < n; i++ {
			for alive[i] {
				alive[i] = cr.step(i)
			}
		}
	}
	cr.finish()
	// a session that got no answer: is a library goroutine parked on a lock (held by another connection)?
	for i := range cr.res {
		if cr.res[i].inc != "" {
			buf := make([]byte, 2<<20)
			dump := string(buf[:runtime.Stack(buf, true)])
			for _, g := range strings.Split(dump, "\n\n") {
				// the accept loop itself sits in a read of somebody's connection: nobody else is accepted
				if strings.Contains(g, "psql-wire.(*Server).Serve(") && strings.Contains(g, "memnet.(*srvEnd).Read") {
					cr.env.Stop()
					return core.Fail("C15/isolation/accept-loop-blocked", "session %d gets no answer: the accept loop waits for the input of another connection (%s):\n%s", i, c.Staller, clip(g))
				}
				// a connection goroutine parked on a channel of the library itself (a server-wide token,
				// queue or gate): it waits for other connections, not for its client
				if strings.Contains(g, "psql-wire.(*Server).serve(") && !strings.Contains(g, "memnet.") && !strings.Contains(g, "verif/harness/script") &&
					(strings.Contains(g, "[chan receive") || strings.Contains(g, "[chan send") || strings.Contains(g, "[select")) {
					cr.env.Stop()
					return core.Fail("C15/isolation/blocked-on-server-wide-resource", "session %d gets no answer: its connection goroutine waits on a channel inside the library (earlier connections: %v):\n%s", i, c.Prelude, clip(g))
				}
				if strings.Contains(g, "jeroenrinzema/psql-wire") && (strings.Contains(g, "sync.(*Mutex).Lock") || strings.Contains(g, "sync.(*RWMutex).Lock") || strings.Contains(g, "sync.(*RWMutex).RLock")) {
					cr.env.Stop()
					return core.Fail("C15/isolation/blocked-by-other-connection", "session %d gets no answer: its goroutine waits for a lock while another connection (%s) is stalled:\n%s", i, c.Staller, clip(g))
				}
			}
		}
	}
	panics := cr.env.Panics()
	cr.env.Stop()
	if len(panics) > 0 {
		return core.Fail("C15/panic", "connection goroutine panicked while serving %d connections: %s", n, panics[0].Value)
	}

	// data races reported while serving concurrently
	if r2 := core.RaceResult(res, "C15", core.RaceSince(mark)); r2.Violation != "" || r2.Inconclusive != "" {
		return r2
	}

	// solo runs: every session alone on a fresh, identically configured server
	distinctTypes := 0
	shared := false
	for i := 0; i < n; i++ {
		sr := newRunner(c.Cfg, [][]script.CMsg{c.Sessions[i]})
		// keep the user name of the session
		sr.msgs = [][]script.CMsg{c.Sessions[i]}
		s := sr.env.NewSess()
		sr.sess[0] = s
		st := s.Startup(startupPairs(i), c.password(i))
		ok := st.State == memnet.Idle && st.Err == nil
		sr.res[0].canon = append(sr.res[0].canon, pgwire.Canon(st.Msgs)...)
		for ok && sr.step(0) {
		}
		sr.finish()
		sr.env.Stop()
		a, b := sr.res[0], cr.res[i]
		if a.inc != "" || b.inc != "" {
			res.Inconclusive = a.inc + b.inc
			return res
		}
		if a.err != "" || b.err != "" {
			return core.Fail("C15/grammar", "session %d: malformed server output: solo %q concurrent %q", i, a.err, b.err)
		}
		if d := diff(a.canon, b.canon); d != "" {
			return core.Fail("C15/isolation/transcript", "session %d of %d: transcript differs between the concurrent run and the run alone: %s", i, n, d)
		}
		if d := diff(a.trace, b.trace); d != "" {
			return core.Fail("C15/isolation/trace", "session %d of %d: callback trace differs between the concurrent run and the run alone: %s", i, n, d)
		}
		for _, m := range c.Sessions[i] {
			if m.K == "P" || m.K == "B" {
				shared = true
			}
		}
		distinctTypes++
	}
	res.NonTrivial = n >= 2 && shared
	return res
}

func diff(a, b []string) string {
	for i := 0; i < len(a) && i < len(b); i++ {
		if a[i] != b[i] {
			return fmt.Sprintf("entry %d: alone %q, concurrent %q", i, clip(a[i]), clip(b[i]))
		}
	}
	if len(a) != len(b) {
		return fmt.Sprintf("%d entries alone, %d concurrent", len(a), len(b))
	}
	return ""
}

func clip(s string) string {
	if len(s) > 200 {
		return s[:200] + "..."
	}
	return s
}
