package c15

import (
	"testing"

	"pgregory.net/rapid"

	"verif/harness/core"
	"verif/harness/gen"
	"verif/harness/script"
)

func TestMain(m *testing.M) {
	core.Main(m, "C15", "cases = one server (generated handler table over all 15 column types, COPY, errors) and 2..8 client sessions of up to 12 simple/extended/COPY messages each, deliberately sharing statement and portal names and query texts, with different users; run (s1) free-running: one harness goroutine per connection, no cross-connection synchronisation, or (s2) under a generated message-level interleaving; oracle = every session's transcript and callback trace equal the same session run alone on a fresh identical server (differential), and the -race build reports no data race with a psql-wire frame; non-trivial = >= 2 sessions using prepared statements/portals with shared names; distinct = distinct canonical JSON")
}

var opts = gen.RichOpts{Copy: true, BigErrs: false, Helpers: true, Oversized: true, MaxMsgs: 12}

func genCase(t *rapid.T) Case {
	c := Case{}
	h := gen.Rich(t, opts)
	c.Cfg = h.Cfg
	c.Cfg.Auth = nil
	n := rapid.IntRange(2, 8).Draw(t, "nsessions")
	c.Sessions = append(c.Sessions, h.Msgs)
	total := len(h.Msgs)
	for i := 1; i < n; i++ {
		m := gen.Rich(t, opts).Msgs
		c.Sessions = append(c.Sessions, m)
		total += len(m)
	}
	// a statement whose handler decodes array parameters (scan plans are memoised inside the type map the
	// parameter was built with): used by several sessions so that the decode paths overlap
	c.Cfg.Table.Q["scan arrays"] = script.Outcome{Stmts: []script.Stmt{{
		Cols:   []script.Col{{Name: "n", T: "int4"}},
		ScanAs: []string{"_int4", "_text", "int4"},
		Ops:    []script.Op{{K: "row", Vals: []script.Val{{T: "int4", I: 1}}}, {K: "complete", Tag: "SELECT 1"}},
	}}}
	for i := range c.Sessions {
		if rapid.Bool().Draw(t, "scans-arrays") {
			a, b, n := []byte("{1,2,3}"), []byte("{x,y}"), []byte("5")
			blk := []script.CMsg{{K: "P", Name: "arr", Query: "scan arrays"}, {K: "B", Portal: "arr", Name: "arr", Params: []*[]byte{&a, &b, &n}}, {K: "E", Portal: "arr"}, {K: "S"}}
			at := rapid.IntRange(0, len(c.Sessions[i])).Draw(t, "scan-at")
			c.Sessions[i] = append(c.Sessions[i][:at:at], append(blk, c.Sessions[i][at:]...)...)
			total += len(blk)
		}
	}
	if rapid.IntRange(0, 2).Draw(t, "earlier-connections?") == 0 {
		c.Prelude = rapid.SliceOfN(rapid.SampledFrom([]string{"served", "startup-abort", "ssl-abort", "ssl-garbage", "tls-no-startup", "cancel"}), 1, 4).Draw(t, "prelude")
		if rapid.IntRange(0, 3).Draw(t, "many-earlier") == 0 {
			// the same thing many times over: whatever a connection of that kind leaves behind adds up
			k := rapid.SampledFrom([]string{"cancel", "served", "startup-abort", "ssl-abort"}).Draw(t, "repeated-kind")
			for i, n := 0, rapid.SampledFrom([]int{10, 11, 16, 33, 70}).Draw(t, "repeats"); i < n; i++ {
				c.Prelude = append(c.Prelude, k)
			}
		}
		if rapid.Bool().Draw(t, "tls-configured") {
			c.Cfg.TLS = "cert"
		}
	}
	if rapid.IntRange(0, 2).Draw(t, "shared-users") == 0 {
		c.SharedUsers = rapid.IntRange(1, 2).Draw(t, "distinct-users")
	}
	if rapid.IntRange(0, 2).Draw(t, "password-logins") == 0 {
		c.Auth = true
		for i := 0; i < n; i++ {
			if rapid.IntRange(0, 3).Draw(t, "wrong-password") == 0 {
				c.WrongPw = append(c.WrongPw, i)
			}
		}
	}
	// the application keeps a plan cache: every connection parsing a text gets the same statement objects
	c.Cfg.SharePlans = rapid.IntRange(0, 2).Draw(t, "plan-cache") == 0
	c.Staller = rapid.SampledFrom([]string{"", "", "", "oversized-partial", "message-partial", "connected-silent", "startup-partial", "ssl-request-only"}).Draw(t, "staller")
	if rapid.Bool().Draw(t, "owned-schedule") {
		for len(c.Schedule) < total {
			i := rapid.IntRange(0, n-1).Draw(t, "who")
			for k := rapid.IntRange(1, 3).Draw(t, "burst"); k > 0; k-- {
				c.Schedule = append(c.Schedule, i)
			}
		}
	}
	return c
}

func TestProp(t *testing.T) {
	core.RunProp(t, "main", core.Scale(250), genCase, Run)
}

func TestReplay(t *testing.T) {
	core.Replay(t, map[string]func(Case) core.Result{"main": Run})
}
