package c09

import (
	"testing"

	"pgregory.net/rapid"

	"verif/harness/core"
	"verif/harness/gen"
	"verif/harness/pgwire"
	"verif/harness/script"
)

func TestMain(m *testing.M) {
	core.Main(m, "C09", "cases = 1..10 columns over the 15 supported types, 1..6 rows of boundary-biased values in the Go representations a handler would pass (native type, Go int, pointer, pgtype struct) with NULLs spelled as untyped nil, typed nil pointer or invalid pgtype value; delivered by simple Query (text) or Parse/Bind/Execute with result format codes none / one for all / per column over {text, binary}; every DataRow field decoded by the harness's own decoder in the announced format; non-trivial = a typed NULL, a binary column, a boundary value or an empty non-NULL value; distinct = distinct canonical JSON")
}

func genCase(t *rapid.T) Case {
	c := Case{}
	nc := rapid.IntRange(1, 10).Draw(t, "ncols")
	types := pgwire.TypeNames
	if rapid.IntRange(0, 3).Draw(t, "extended-types") == 2 {
		types = append(append([]string{}, types...), "custom", "custom")
	}
	c.Cols = gen.Cols(nc, types).Draw(t, "cols")
	nr := rapid.IntRange(1, 6).Draw(t, "nrows")
	for i := 0; i < nr; i++ {
		c.Rows = append(c.Rows, gen.MaybeBig(t, gen.Row(c.Cols, 25, true).Draw(t, "row")))
	}
	c.Extended = rapid.IntRange(0, 3).Draw(t, "extended?") != 0
	if c.Extended {
		switch rapid.IntRange(0, 3).Draw(t, "rfmt-shape") {
		case 0:
		case 1:
			c.RFmts = []int16{int16(rapid.IntRange(0, 1).Draw(t, "rfmt"))}
		default:
			for i := 0; i < nc; i++ {
				c.RFmts = append(c.RFmts, int16(rapid.IntRange(0, 1).Draw(t, "rfmt")))
			}
		}
	}
	c.Other = c.Extended && rapid.IntRange(0, 2).Draw(t, "other-portal") == 0
	if rapid.IntRange(0, 3).Draw(t, "rejected-row?") == 0 {
		// a row with a value no codec can encode, somewhere among the good rows: it is refused (Row
		// returns an error, nothing of it is sent) and the rows around it arrive intact
		bad := gen.Row(c.Cols, 0, false).Draw(t, "bad-row")
		bad[rapid.IntRange(0, nc-1).Draw(t, "bad-at")].Bad = true
		at := rapid.IntRange(0, len(c.Rows)).Draw(t, "bad-row-at")
		c.Rows = append(c.Rows[:at:at], append([][]script.Val{bad}, c.Rows[at:]...)...)
	}
	c.TLS = rapid.IntRange(0, 7).Draw(t, "inside-tls") == 3
	c.End = rapid.SampledFrom([]string{"", "", "", "", "error", "panic"}).Draw(t, "end")
	return c
}

func TestProp(t *testing.T) {
	core.RunProp(t, "main", core.Scale(3000), genCase, Run)
}

func TestReplay(t *testing.T) {
	core.Replay(t, map[string]func(Case) core.Result{"main": Run})
}

// FuzzGen: coverage-guided search over the same generated cases (thorough tier).
func FuzzGen(f *testing.F) {
	core.FuzzProp(f, "main", genCase, Run)
}
