// Package c09: row values round-trip to the client and NULL stays NULL.
package c09

import (
	"math"

	"verif/harness/core"
	"verif/harness/play"
	"verif/harness/script"
)

type Case struct {
	Cols     []script.Col   `json:"cols"`
	Rows     [][]script.Val `json:"rows"`
	End      string         `json:"end,omitempty"` // "" (Complete) | error | panic (Execute only): how the statement ends after its rows
	Extended bool           `json:"extended,omitempty"`
	RFmts    []int16        `json:"rfmts,omitempty"`
	Other    bool           `json:"other,omitempty"` // a second portal with complementary formats is bound in between
	TLS      bool           `json:"tls,omitempty"`
}

const q = "select rows"

func boundary(v script.Val) bool {
	switch v.T {
	case "int2", "int4", "int8", "oid":
		switch v.I {
		case 0, -1, math.MaxInt16, math.MinInt16, math.MaxInt32, math.MinInt32, math.MaxInt64, math.MinInt64, math.MaxUint32:
			return true
		}
	case "float4":
		f := math.Float32frombits(uint32(v.F))
		return f != f || math.IsInf(float64(f), 0) || f == 0 || f == math.MaxFloat32 || f == math.SmallestNonzeroFloat32
	case "float8":
		f := math.Float64frombits(v.F)
		return f != f || math.IsInf(f, 0) || f == 0 || f == math.MaxFloat64 || f == math.SmallestNonzeroFloat64
	}
	return false
}

func Run(c Case) core.Result {
	res := core.Result{}
	set := map[string]bool{}
	for _, r := range c.Rows {
		for i, v := range r {
			f := int16(0)
			if c.Extended {
				switch len(c.RFmts) {
				case 0:
				case 1:
					f = c.RFmts[0]
				default:
					f = c.RFmts[i]
				}
			}
			if f == 1 {
				set["binary-column"] = true
				set["binary:"+v.T] = true
			} else {
				set["text:"+v.T] = true
			}
			switch v.Null {
			case "nil":
				set["null-untyped-nil"] = true
			case "nilptr":
				set["null-nil-pointer"] = true
			case "invalid":
				set["null-invalid-pgtype"] = true
			default:
				if boundary(v) {
					set["boundary-value"] = true
				}
				if (v.T == "text" || v.T == "varchar" || v.T == "name") && v.S == "" || v.T == "bytea" && len(v.Y) == 0 {
					set["empty-non-null"] = true
				}
				set["rep="+v.Rep] = true
			}
		}
	}
	for k := range set {
		res.Labels = append(res.Labels, k)
	}
	res.NonTrivial = set["null-nil-pointer"] || set["null-invalid-pgtype"] || set["binary-column"] || set["boundary-value"] || set["empty-non-null"]

	st := script.Stmt{Cols: c.Cols}
	for _, r := range c.Rows {
		st.Ops = append(st.Ops, script.Op{K: "row", Vals: r})
	}
	switch c.End {
	case "error":
		// the rows were written (Row returned nil); that the statement fails afterwards does not take them back
		st.Ops = append(st.Ops, script.Op{K: "ret", Err: &script.ErrSpec{Base: "statement fails after its rows"}})
		res.Labels = append(res.Labels, "error-after-rows")
	case "panic":
		if c.Extended {
			st.Ops = append(st.Ops, script.Op{K: "panic"})
			res.Labels = append(res.Labels, "panic-after-rows")
			break
		}
		fallthrough
	default:
		st.Ops = append(st.Ops, script.Op{K: "complete", Tag: "SELECT"})
	}
	h := play.History{}
	h.Cfg.Table.Q = map[string]script.Outcome{q: {Stmts: []script.Stmt{st}}}
	h.Cfg.SetLimit, h.Cfg.Limit = true, 1<<16
	h.TLS = c.TLS
	for _, col := range c.Cols {
		if col.T == "custom" {
			h.Cfg.ExtendTypes = true
			res.Labels = append(res.Labels, "type-registered-through-ExtendTypes")
			break
		}
	}
	if c.TLS {
		res.Labels = append(res.Labels, "inside-tls")
	}
	if c.Extended {
		h.Msgs = []script.CMsg{{K: "P", Query: q}, {K: "B", RFmts: c.RFmts}}
		if c.Other {
			// another portal on the same statement with the complementary formats, bound in between
			var o []int16
			for _, f := range c.RFmts {
				o = append(o, 1-f)
			}
			if len(o) == 0 {
				o = []int16{1}
			}
			h.Msgs = append(h.Msgs, script.CMsg{K: "B", Portal: "other", RFmts: o})
		}
		h.Msgs = append(h.Msgs, script.CMsg{K: "D", Kind: 'P'}, script.CMsg{K: "E"})
		if c.Other {
			h.Msgs = append(h.Msgs, script.CMsg{K: "D", Kind: 'P', Portal: "other"}, script.CMsg{K: "E", Portal: "other"})
		}
		h.Msgs = append(h.Msgs, script.CMsg{K: "S"})
	} else {
		h.Msgs = []script.CMsg{{K: "Q", Query: q}}
	}
	o := play.Run(h, play.Options{Prefix: "C09"})
	res.Inconclusive = o.Inconclusive
	if o.Violation != "" {
		res.Sig, res.Violation = o.Sig, o.Violation
		res.Detail = map[string]any{"transcript": o.Transcript}
	}
	return res
}
