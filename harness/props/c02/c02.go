// Package c02: every byte the server sends is a well-formed backend message.
package c02

import (
	"fmt"
	"os"

	"verif/harness/core"
	"verif/harness/pgwire"
	"verif/harness/play"
	"verif/harness/script"
)

type Case struct {
	play.History
	Stepwise bool `json:"stepwise,omitempty"`
	SSLFirst bool `json:"ssl_first,omitempty"` // SSLRequest before the startup packet (refused: no certificates)
	BadPass  bool `json:"bad_pass,omitempty"`
}

func features(c Case, msgs []pgwire.BMsg) (labels []string, nontrivial bool) {
	set := map[string]bool{}
	other := false
	for _, m := range msgs {
		core.Count("backend-type:"+string(m.Type), 1)
		switch m.Type {
		case 'R', 'S', 'Z':
		default:
			other = true
		}
		switch m.Type {
		case 'G':
			set["CopyInResponse"] = true
		case 'T':
			if len(m.Cols) >= 2 {
				set["RowDescription>=2cols"] = true
			}
		case 'E':
			f, _ := m.ErrMap()
			if _, ok := f['F']; ok {
				set["error-with-source"] = true
			}
			if _, ok := f['n']; ok {
				set["error-with-constraint"] = true
			}
			if f['C'] == "54000" {
				set["oversized-recovery"] = true
			}
		case 'D':
			for _, fl := range m.Fields {
				if fl.Null {
					set["null-field"] = true
				}
			}
		}
	}
	for _, o := range c.Cfg.Table.Q {
		for _, st := range o.Stmts {
			for _, op := range st.Ops {
				if op.K == "row" {
					if len(op.Vals) != len(st.Cols) {
						set["wrong-arity-row(in table)"] = true
					}
					for _, v := range op.Vals {
						if v.Bad {
							set["abandoned-row(in table)"] = true
						}
					}
				}
			}
		}
	}
	for k := range set {
		labels = append(labels, k)
	}
	return labels, other && len(set) > 0
}

func Run(c Case) core.Result {
	res := core.Result{}
	opt := play.RawOptions{Stepwise: c.Stepwise, BadPass: c.BadPass}
	if c.SSLFirst {
		opt.Prefix = pgwire.SSLRequest()
	}
	r := play.RunRaw(c.History, opt)
	res.Inconclusive = r.Inconclusive
	if r.Inconclusive != "" {
		return res
	}
	res.Labels, res.NonTrivial = features(c, r.Msgs)
	if c.Stepwise {
		res.Labels = append(res.Labels, "stepwise")
	}
	if c.Proto != 0 {
		res.Labels = append(res.Labels, fmt.Sprintf("announced-version=%d.x", c.Proto>>16))
	}
	if len(r.Panics) > 0 {
		// a panic is C04's concern; the bytes written before it must still be well formed
		res.Labels = append(res.Labels, "panic-seen")
		if os.Getenv("VERIF_FUZZ_STRICT") != "" {
			res.Inconclusive = "panic: " + r.Panics[0].Value + "\n" + r.Panics[0].Stack
		}
	}
	if r.GrammarErr != nil {
		res.Sig = "C02/malformed-server-output"
		if n := len(r.Msgs); n < len(r.Out) {
			res.Sig += "/" + offending(r)
		}
		res.Violation = fmt.Sprintf("server output is not a sequence of well-formed backend messages: %v", r.GrammarErr)
		res.Detail = map[string]any{"parsed_before": pgwire.Briefs(r.Msgs)}
		return res
	}
	return res
}

func offending(r *play.Raw) string {
	body := r.Out
	if len(body) > len(r.Out)-1 && len(r.Out) > 0 && (r.Out[0] == 'N' || r.Out[0] == 'S') && len(r.Msgs) == 0 {
		return "first"
	}
	if r.ErrOffset < len(body) {
		return fmt.Sprintf("type-%02x", body[r.ErrOffset])
	}
	return "eof"
}

var _ = script.CMsg{}
