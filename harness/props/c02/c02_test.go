package c02

import (
	"strconv"
	"testing"

	"pgregory.net/rapid"

	"verif/harness/core"
	"verif/harness/gen"
	"verif/harness/pgwire"
	"verif/harness/play"
	"verif/harness/script"
)

func TestMain(m *testing.M) {
	core.Main(m, "C02", "cases = server configuration (limit, global parameters, version, auth) x handler table (parser errors and statement errors decorated with up to 6 layers incl. source lines at int32 boundaries, 0..12 columns of all 15 types with boundary attribute values, rows of right/wrong arity, unencodable values at column k, tags, CopyIn in both formats, operations after completion) x up to 25 client messages (simple, extended, COPY, oversized, unknown type, malformed by 8 operators) played stepwise or in one burst, optionally behind a refused SSLRequest or with a wrong password; oracle = the whole server byte stream parses under the strict independent backend grammar; non-trivial = a message type other than R/S/Z was produced and the case exercised a decorated error with source/constraint, an abandoned or wrong-arity row, CopyInResponse, oversized recovery, a NULL field or >= 2 columns; distinct = distinct canonical JSON")
}

var opts = gen.RichOpts{Malformed: true, Oversized: true, Copy: true, Auth: true, BigErrs: true}

func genCase(t *rapid.T) Case {
	c := Case{History: gen.Rich(t, opts)}
	c.Stepwise = rapid.Bool().Draw(t, "stepwise")
	if rapid.IntRange(0, 3).Draw(t, "describe-again") == 0 {
		// a named statement with columns, parsed once and described two or three times (and its portal too)
		st := script.Stmt{Cols: gen.Cols(rapid.IntRange(1, 4).Draw(t, "dd-ncols"), gen.SimpleTypes).Draw(t, "dd-cols"), Params: []uint32{23, 25}, Ops: []script.Op{{K: "complete", Tag: "SELECT 0"}}}
		c.Cfg.Table.Q["described again"] = script.Outcome{Stmts: []script.Stmt{st}}
		at := rapid.IntRange(0, len(c.Msgs)).Draw(t, "dd-at")
		blk := []script.CMsg{{K: "S"}, {K: "P", Name: "dd", Query: "described again"}, {K: "D", Kind: 'S', Name: "dd"}, {K: "D", Kind: 'S', Name: "dd"}, {K: "B", Portal: "ddp", Name: "dd"}, {K: "D", Kind: 'P', Portal: "ddp"}, {K: "D", Kind: 'P', Portal: "ddp"}, {K: "S"}, {K: "D", Kind: 'S', Name: "dd"}, {K: "S"}}
		c.Msgs = append(c.Msgs[:at:at], append(blk, c.Msgs[at:]...)...)
	}
	if rapid.IntRange(0, 3).Draw(t, "terminate-last") == 0 {
		// Terminate right behind the rest (in burst mode: in the same write): everything the server
		// produced before it closes the connection is still whole messages
		if rapid.Bool().Draw(t, "bulk-result-first") {
			// ... including a result of 5-40 KB produced just before
			st := script.Stmt{Cols: []script.Col{{Name: "n", T: "int4"}, {Name: "s", T: "text"}}}
			for i, n := 0, rapid.SampledFrom([]int{100, 300, 800}).Draw(t, "bulk-rows"); i < n; i++ {
				st.Ops = append(st.Ops, script.Op{K: "row", Vals: []script.Val{{T: "int4", I: int64(i)}, {T: "text", S: "a row of the bulk result, number " + strconv.Itoa(i)}}})
			}
			st.Ops = append(st.Ops, script.Op{K: "complete", Tag: "SELECT"})
			c.Cfg.Table.Q["bulk result"] = script.Outcome{Stmts: []script.Stmt{st}}
			c.Msgs = append(c.Msgs, script.CMsg{K: "S"}, script.CMsg{K: "Q", Query: "bulk result"})
		}
		c.Msgs = append(c.Msgs, script.CMsg{K: "X"})
	}
	if rapid.IntRange(0, 5).Draw(t, "other-version?") == 0 {
		// every protocol version a client may announce: earlier majors, later minors and majors, and
		// neighbours of the request codes (the codes themselves are requests, not versions)
		c.Proto = rapid.OneOf(
			rapid.SampledFrom([]uint32{1 << 16, 2 << 16, 2<<16 | 1, 3<<16 | 1, 3<<16 | 2, 3<<16 | 0xFFFF, 4 << 16, 1, 0xFFFFFFFF, 0x7FFFFFFF, 0x80000000, 80877101, 80877105}),
			rapid.Uint32Range(1, 5<<16),
			rapid.Uint32(),
		).Draw(t, "version")
		if c.Proto >= 80877102 && c.Proto <= 80877104 {
			c.Proto = 0
		}
	}
	c.SSLFirst = rapid.IntRange(0, 7).Draw(t, "ssl-first") == 0
	c.BadPass = c.Cfg.Auth != nil && rapid.IntRange(0, 3).Draw(t, "bad-pass") == 0
	if rapid.IntRange(0, 3).Draw(t, "segmented?") == 0 {
		c.Segs = gen.Segments().Draw(t, "segs")
		c.Cycle = true
	}
	return c
}

func TestProp(t *testing.T) {
	core.RunProp(t, "main", core.Scale(1500), genCase, Run)
}

// TestWide: item counts around the int16 boundary (RowDescription, DataRow,
// CopyInResponse, ParameterDescription with 32767..65535 items).
func TestWide(t *testing.T) {
	if shard, _ := core.Shard(); shard != 0 {
		return
	}
	for _, n := range []int{255, 256, 32767, 32768, 40000, 65535} {
		cols := make([]script.Col, n)
		row := make([]script.Val, n)
		params := make([]uint32, n)
		for i := range cols {
			cols[i] = script.Col{Name: "", T: "text"}
			row[i] = script.Val{T: "text", Null: "nil"}
			if i%1000 == 0 {
				row[i] = script.Val{T: "text", S: "x"}
			}
			params[i] = 23
		}
		c := Case{Stepwise: true}
		c.Cfg.SetLimit, c.Cfg.Limit = true, 1<<16
		c.Cfg.Table.Q = map[string]script.Outcome{
			"wide rows": {Stmts: []script.Stmt{{Cols: cols, Params: params, Ops: []script.Op{{K: "row", Vals: row}, {K: "row", Vals: row[:n-1]}, {K: "complete", Tag: "SELECT 1"}}}}},
			"wide copy": {Stmts: []script.Stmt{{Cols: cols, Ops: []script.Op{{K: "copyin", Copy: &script.CopySpec{Format: 1, MaxReads: 0}}, {K: "complete", Tag: "COPY 0"}}}}},
		}
		c.Msgs = []script.CMsg{
			{K: "Q", Query: "wide rows"},
			{K: "P", Name: "w", Query: "wide rows"}, {K: "D", Kind: 'S', Name: "w"}, {K: "B", Portal: "w", Name: "w", RFmts: []int16{1}}, {K: "D", Kind: 'P', Portal: "w"}, {K: "E", Portal: "w"}, {K: "S"},
			{K: "Q", Query: "wide copy"},
			{K: "Q", Query: "wide rows"},
		}
		core.RunCase(t, "wide", c, func(c Case) core.Result {
			r := Run(c)
			r.NonTrivial = true
			r.Labels = append(r.Labels, "items="+strconv.Itoa(n))
			return r
		})
	}
	core.MarkExhaustive("wide (255..65535 columns/parameters: RowDescription, DataRow, CopyInResponse, ParameterDescription)")
}

// fixed configurations for the byte-level fuzz target
func fuzzConfig(sel byte) script.Config {
	return rapid.Custom(func(t *rapid.T) script.Config {
		h := gen.Rich(t, opts)
		h.Cfg.Auth = nil
		h.Cfg.Limit = 1024
		return h.Cfg
	}).Example(int(sel % 8))
}

// FuzzServerStream: raw fuzz bytes appended to a valid session prefix.
func FuzzServerStream(f *testing.F) {
	seeds := [][]byte{
		pgwire.Query("select 1"),
		append(pgwire.Parse("", "select a from t", nil), append(pgwire.Bind("", "", nil, nil, nil), append(pgwire.Describe('P', ""), append(pgwire.Execute("", 0), pgwire.Sync()...)...)...)...),
		pgwire.Describe(0, ""),
		pgwire.RawFrame('Q', 0xFFFFFFFF, []byte("x")),
		pgwire.RawFrame('D', 4, nil),
		append(pgwire.Query("q6"), pgwire.CopyFail("x")...),
		{'D', 0, 0, 0, 6, 0, 0},
	}
	for i, s := range seeds {
		f.Add(byte(i), s)
	}
	f.Fuzz(func(t *testing.T, sel byte, data []byte) {
		if len(data) > 4096 {
			return
		}
		c := Case{History: play.History{Cfg: fuzzConfig(sel), Msgs: []script.CMsg{{K: "raw", Data: data}}}}
		core.FuzzCase(t, "fuzz", c, Run)
	})
}

func TestReplay(t *testing.T) {
	core.Replay(t, map[string]func(Case) core.Result{"main": Run, "fuzz": Run, "wide": Run})
}
