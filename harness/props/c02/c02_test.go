package c02

import (
	"testing"

	"pgregory.net/rapid"

	"verif/harness/core"
	"verif/harness/gen"
	"verif/harness/pgwire"
	"verif/harness/play"
	"verif/harness/script"
)

func TestMain(m *testing.M) {
	core.Main(m, "C02", "cases = server configuration (limit, global parameters, version, auth) x handler table (parser errors and statement errors decorated with up to 6 layers incl. source lines at int32 boundaries, 0..12 columns of all 15 types with boundary attribute values, rows of right/wrong arity, unencodable values at column k, tags, CopyIn in both formats, operations after completion) x up to 25 client messages (simple, extended, COPY, oversized, unknown type, malformed by 8 operators) played stepwise or in one burst, optionally behind a refused SSLRequest or with a wrong password; oracle = the whole server byte stream parses under the strict independent backend grammar; non-trivial = a message type other than R/S/Z was produced and the case exercised a decorated error with source/constraint, an abandoned or wrong-arity row, CopyInResponse, oversized recovery, a NULL field or >= 2 columns; distinct = distinct canonical JSON")
}

var opts = gen.RichOpts{Malformed: true, Oversized: true, Copy: true, Auth: true, BigErrs: true}

func genCase(t *rapid.T) Case {
	c := Case{History: gen.Rich(t, opts)}
	c.Stepwise = rapid.Bool().Draw(t, "stepwise")
	c.SSLFirst = rapid.IntRange(0, 7).Draw(t, "ssl-first") == 0
	c.BadPass = c.Cfg.Auth != nil && rapid.IntRange(0, 3).Draw(t, "bad-pass") == 0
	if rapid.IntRange(0, 3).Draw(t, "segmented?") == 0 {
		c.Segs = gen.Segments().Draw(t, "segs")
		c.Cycle = true
	}
	return c
}

func TestProp(t *testing.T) {
	core.RunProp(t, "main", core.Scale(1500), genCase, Run)
}

// fixed configurations for the byte-level fuzz target
func fuzzConfig(sel byte) script.Config {
	return rapid.Custom(func(t *rapid.T) script.Config {
		h := gen.Rich(t, opts)
		h.Cfg.Auth = nil
		h.Cfg.Limit = 1024
		return h.Cfg
	}).Example(int(sel % 8))
}

// FuzzServerStream: raw fuzz bytes appended to a valid session prefix.
func FuzzServerStream(f *testing.F) {
	seeds := [][]byte{
		pgwire.Query("select 1"),
		append(pgwire.Parse("", "select a from t", nil), append(pgwire.Bind("", "", nil, nil, nil), append(pgwire.Describe('P', ""), append(pgwire.Execute("", 0), pgwire.Sync()...)...)...)...),
		pgwire.Describe(0, ""),
		pgwire.RawFrame('Q', 0xFFFFFFFF, []byte("x")),
		pgwire.RawFrame('D', 4, nil),
		append(pgwire.Query("q6"), pgwire.CopyFail("x")...),
		{'D', 0, 0, 0, 6, 0, 0},
	}
	for i, s := range seeds {
		f.Add(byte(i), s)
	}
	f.Fuzz(func(t *testing.T, sel byte, data []byte) {
		if len(data) > 4096 {
			return
		}
		c := Case{History: play.History{Cfg: fuzzConfig(sel), Msgs: []script.CMsg{{K: "raw", Data: data}}}}
		core.FuzzCase(t, "fuzz", c, Run)
	})
}

func TestReplay(t *testing.T) {
	core.Replay(t, map[string]func(Case) core.Result{"main": Run, "fuzz": Run})
}
