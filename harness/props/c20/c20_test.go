package c20

import (
	"strconv"
	"strings"
	"testing"

	"pgregory.net/rapid"

	"verif/harness/core"
)

func TestMain(m *testing.M) {
	core.Main(m, "C20", "cases = query strings assembled from filler (SQL-ish words, quotes, UTF-8, lone '$', '$$', bare digits) and markers of one style ($n with n as decimal text from 0 to 30 digits, any order/repetition/adjacency; or runs of '?'), plus arbitrary strings; oracle = hand-written scanner; non-trivial = highest index > number of markers, or descending/repeated indexes, or an index/count beyond 65535, or >= 1000 markers; distinct = distinct canonical JSON")
}

var fillers = []string{"", " ", "select ", " from t where a = ", ", ", "'", "\"", "é", "$", "$$", "$ ", "12", " 7 ", "a$", "$a", "::int", "\n", "--", "/*", "*/", "$-1", "$+1", "\\$", "日本"}

var bigNs = []string{"0", "00", "1", "01", "2", "3", "5", "9", "10", "16", "17", "255", "256", "1000", "65534", "65535", "65536", "70000", "2147483647", "2147483648", "4294967296", "9223372036854775807", "9223372036854775808", "18446744073709551615", "18446744073709551616", "123456789012345678901234567890", "000000000000000000000000000002"}

func genCase(t *rapid.T) Case {
	c := Case{}
	kind := rapid.IntRange(0, 9).Draw(t, "kind")
	if kind == 0 {
		s := strings.ToValidUTF8(rapid.String().Draw(t, "raw"), "?")
		c.Raw = &s
		return c
	}
	style := rapid.SampledFrom([]string{"dollar", "dollar", "qmark", "none"}).Draw(t, "style")
	n := rapid.IntRange(0, 8).Draw(t, "pieces")
	bigAt := -1
	if style != "none" && n > 0 && rapid.IntRange(0, 99).Draw(t, "many-markers") == 57 {
		bigAt = rapid.IntRange(0, n-1).Draw(t, "big-at")
	}
	for i := 0; i < n; i++ {
		p := Piece{Filler: rapid.SampledFrom(fillers).Draw(t, "filler")}
		switch style {
		case "dollar":
			switch rapid.IntRange(0, 7).Draw(t, "n-kind") {
			case 0:
				p.N = rapid.SampledFrom(bigNs).Draw(t, "n")
			case 1:
				p.N = strconv.Itoa(rapid.IntRange(0, 70000).Draw(t, "n"))
			default:
				p.N = strconv.Itoa(rapid.IntRange(0, 12).Draw(t, "n"))
			}
			if i == bigAt {
				// tens of thousands of repetitions of one small index; a higher index may only follow later
				p.N = strconv.Itoa(rapid.IntRange(1, 3).Draw(t, "repeated-n"))
				p.Rep = rapid.SampledFrom([]int{1000, 65533, 65534, 65535, 65536, 70000}).Draw(t, "rep")
				p.Sep = ","
			}
			if strings.HasSuffix(p.Filler, "$") && p.Filler != "\\$" {
				// "$" + "$5" would read as "$$5": still one marker; fine either way
			}
		case "qmark":
			if i == bigAt {
				p.Rep = rapid.SampledFrom([]int{1000, 4096, 65534, 65535, 65536, 70000}).Draw(t, "rep")
			} else {
				p.Rep = rapid.IntRange(0, 5).Draw(t, "rep")
			}
			p.Sep = rapid.SampledFrom([]string{"", ",", " "}).Draw(t, "sep")
			// fillers containing "$<digit>" would mix styles: keep qmark strings pure
			if strings.Contains(p.Filler, "$") {
				p.Filler = " "
			}
		}
		c.Pieces = append(c.Pieces, p)
	}
	c.E2E = rapid.IntRange(0, 19).Draw(t, "e2e") == 0
	return c
}

func TestProp(t *testing.T) {
	core.RunProp(t, "main", core.Scale(12000), genCase, Run)
}

// TestBoundaries enumerates the index boundary values explicitly.
func TestBoundaries(t *testing.T) {
	for _, n := range bigNs {
		for _, tmpl := range []string{"select $%", "$%", "$1 $%", "$% $1", "$%$%", "x$%y", "$$%"} {
			q := strings.ReplaceAll(tmpl, "%", n)
			core.RunCase(t, "bounds", Case{Raw: &q, E2E: len(n) < 6}, Run)
		}
	}
	for _, k := range []int{0, 1, 2, 65534, 65535, 65536, 70000} {
		q := strings.Repeat("?", k)
		core.RunCase(t, "bounds", Case{Raw: &q, E2E: true}, Run)
	}
	for _, k := range []int{65533, 65534, 65535, 65536, 70000} {
		for _, tail := range []string{"", ",$2", ",$7", ",$65535", ",$65536", ",$99999999999999999999"} {
			q := strings.Repeat("$1,", k-1) + "$1" + tail
			core.RunCase(t, "bounds", Case{Raw: &q, E2E: k == 65536 && tail == ",$2"}, Run)
		}
	}
	core.MarkExhaustive("bounds (index boundary table x 7 templates; 65533..70000 repeated markers x 6 tails)")
}

func FuzzParseParameters(f *testing.F) {
	for _, s := range []string{"select $1", "select $5", "? ?", "$65536", "$18446744073709551616", "$0", "$$", "", "$1$2$3"} {
		f.Add(s)
	}
	f.Fuzz(func(t *testing.T, q string) {
		core.FuzzCase(t, "fuzz", Case{Raw: &q}, Run)
	})
}

func TestReplay(t *testing.T) {
	core.Replay(t, map[string]func(Case) core.Result{"main": Run, "bounds": Run, "fuzz": Run})
}
