// Package c20: ParseParameters is total and counts placeholders correctly.
package c20

import (
	"fmt"
	"math/big"
	"runtime"
	"strings"

	wire "github.com/jeroenrinzema/psql-wire"

	"verif/harness/core"
	"verif/harness/pgwire"
	"verif/harness/script"
)

// Piece of a generated query: filler text, a $n marker (decimal text N, so
// that indexes beyond 2^64 can be expressed), or Rep '?' markers.
type Piece struct {
	Filler string `json:"filler,omitempty"`
	N      string `json:"n,omitempty"`   // "$" + N
	Rep    int    `json:"rep,omitempty"` // that many "?" (separated by Sep)
	Sep    string `json:"sep,omitempty"`
}

type Case struct {
	Pieces []Piece `json:"pieces,omitempty"`
	Raw    *string `json:"raw,omitempty"` // arbitrary string instead of pieces
	E2E    bool    `json:"e2e,omitempty"` // also Parse + Describe through a live server
}

func (c Case) Query() string {
	if c.Raw != nil {
		return *c.Raw
	}
	var sb strings.Builder
	for _, p := range c.Pieces {
		sb.WriteString(p.Filler)
		if p.N != "" {
			sb.WriteString("$" + p.N)
			// Rep further repetitions of the same $n marker
			for i := 0; i < p.Rep; i++ {
				sb.WriteString(p.Sep)
				sb.WriteString("$" + p.N)
			}
			continue
		}
		for i := 0; i < p.Rep; i++ {
			sb.WriteString("?")
			sb.WriteString(p.Sep)
		}
	}
	return sb.String()
}

func isDigit(b byte) bool { return b >= '0' && b <= '9' }

// scan is the independent oracle: a hand-written scanner (no regexp).
// It returns the number of '?' markers, the highest $n index (big), the
// number of $n markers, and whether indexes repeat or descend.
func scan(q string) (qmarks int, maxIdx *big.Int, dollars int, unordered bool) {
	maxIdx = new(big.Int)
	prev := new(big.Int)
	for i := 0; i < len(q); {
		switch {
		case q[i] == '?':
			qmarks++
			i++
		case q[i] == '$' && i+1 < len(q) && isDigit(q[i+1]):
			j := i + 1
			for j < len(q) && isDigit(q[j]) {
				j++
			}
			n, _ := new(big.Int).SetString(q[i+1:j], 10)
			dollars++
			if dollars > 1 && n.Cmp(prev) <= 0 {
				unordered = true
			}
			prev = n
			if n.Cmp(maxIdx) > 0 {
				maxIdx = n
			}
			i = j
		default:
			i++
		}
	}
	return
}

const maxParams = 65535

// call runs ParseParameters under recover and measures cumulative allocation.
func call(q string) (n int, nonzero bool, alloc uint64, panicked string) {
	defer func() {
		if r := recover(); r != nil {
			panicked = fmt.Sprint(r)
		}
	}()
	var m0, m1 runtime.MemStats
	runtime.ReadMemStats(&m0)
	ps := wire.ParseParameters(q)
	runtime.ReadMemStats(&m1)
	for _, p := range ps {
		if p != 0 {
			nonzero = true
		}
	}
	return len(ps), nonzero, m1.TotalAlloc - m0.TotalAlloc, ""
}

func Run(c Case) core.Result {
	q := c.Query()
	qmarks, maxIdx, dollars, unordered := scan(q)
	res := core.Result{}
	style := "none"
	switch {
	case qmarks > 0 && dollars > 0:
		style = "mixed"
	case qmarks > 0:
		style = "qmark"
	case dollars > 0:
		style = "dollar"
	}
	res.Labels = append(res.Labels, "style="+style)
	big65535 := big.NewInt(maxParams)
	over := maxIdx.Cmp(big65535) > 0 || qmarks > maxParams
	if style == "dollar" {
		if maxIdx.Cmp(big.NewInt(int64(dollars))) > 0 {
			res.Labels = append(res.Labels, "gap(highest>markers)")
			res.NonTrivial = true
		}
		if unordered {
			res.Labels = append(res.Labels, "descending-or-repeated")
			res.NonTrivial = true
		}
		if !maxIdx.IsInt64() {
			res.Labels = append(res.Labels, "index>=2^63")
		}
		if maxIdx.Sign() == 0 {
			res.Labels = append(res.Labels, "only-$0")
		}
	}
	if over {
		res.Labels = append(res.Labels, "beyond-65535")
		res.NonTrivial = true
	}
	if qmarks+dollars >= 1000 {
		res.Labels = append(res.Labels, ">=1000-markers")
		res.NonTrivial = true
	}
	if c.E2E {
		res.Labels = append(res.Labels, "e2e")
	}

	n, nonzero, alloc, panicked := call(q)
	if panicked != "" {
		res.Sig, res.Violation = "C20/panic", fmt.Sprintf("ParseParameters(%q) panicked: %s", clip(q), panicked)
		return res
	}
	// work bounded by the protocol limit, not by the numeric value of n
	// (the regexp match list costs O(100) bytes per marker, i.e. is linear in len(q); TotalAlloc is
	// process wide, hence the generous constant)
	bound := uint64(512*len(q)+maxParams*64) + 8<<20
	if alloc > bound {
		res.Sig, res.Violation = "C20/alloc", fmt.Sprintf("ParseParameters(%q) allocated %d bytes (> %d)", clip(q), alloc, bound)
		return res
	}
	if n > maxParams {
		res.Sig, res.Violation = "C20/too-many", fmt.Sprintf("ParseParameters(%q) returned %d placeholders (> 65535)", clip(q), n)
		return res
	}
	if nonzero {
		res.Sig, res.Violation = "C20/typed", fmt.Sprintf("ParseParameters(%q) returned a placeholder with a specified type", clip(q))
		return res
	}
	// the returned list is the caller's: a parse handler types its placeholders by writing into it,
	// and the next call for the same text must still return unspecified placeholders of the same count
	if n > 0 {
		func() {
			defer func() { recover() }()
			ps := wire.ParseParameters(q)
			for i := range ps {
				ps[i] = 23
			}
		}()
		n3, nonzero3, _, p3 := call(q)
		if p3 != "" {
			res.Sig, res.Violation = "C20/panic", fmt.Sprintf("second ParseParameters(%q) panicked: %s", clip(q), p3)
			return res
		}
		if nonzero3 || n3 != n {
			res.Sig, res.Violation = "C20/typed-after-caller-write", fmt.Sprintf("ParseParameters(%q) returned %d placeholders (typed=%v) after a caller wrote types into the %d it got from an earlier call", clip(q), n3, nonzero3, n)
			return res
		}
	}
	if !over {
		want := -1
		switch style {
		case "none":
			want = 0
		case "qmark":
			want = qmarks
		case "dollar":
			want = int(maxIdx.Int64())
		}
		if want >= 0 && n != want {
			res.Sig, res.Violation = "C20/count/"+style, fmt.Sprintf("ParseParameters(%q) returned %d placeholders, want %d", clip(q), n, want)
			return res
		}
	}
	if over && style == "dollar" {
		// metamorphic: the property leaves open how an index beyond the protocol limit is clamped,
		// but the answer cannot depend on how far beyond it lies: replacing every out-of-range
		// index by 65536 must give the same length
		n2, _, _, p2 := call(normalizeOver(q))
		if p2 != "" {
			res.Sig, res.Violation = "C20/panic", fmt.Sprintf("ParseParameters(%q) panicked: %s", clip(normalizeOver(q)), p2)
			return res
		}
		if n2 != n {
			res.Sig, res.Violation = "C20/over-limit-inconsistent", fmt.Sprintf("ParseParameters(%q) returned %d placeholders but %d with every out-of-range index written as $65536 (%q)", clip(q), n, n2, clip(normalizeOver(q)))
			return res
		}
	}
	if c.E2E && !strings.Contains(q, "\x00") {
		if v := e2e(q, n); v != "" {
			res.Sig, res.Violation = "C20/describe", v
			return res
		}
	}
	return res
}

// e2e: the length ParseParameters reports is what Describe announces.
func e2e(q string, n int) string {
	cfg := script.Config{Table: script.Table{Def: &script.Outcome{Stmts: []script.Stmt{{ParseParams: true, Ops: []script.Op{{K: "complete", Tag: "OK"}}}}}}}
	env := script.Start(cfg)
	defer env.Stop()
	s := env.NewSess()
	st := s.Startup(script.DefaultPairs("u"), nil)
	if !script.Ready(st.Msgs) {
		return fmt.Sprintf("startup failed: %v", pgwire.Briefs(st.Msgs))
	}
	// the client may prespecify types for none, some, all or more than all of the placeholders (as
	// unspecified, 0): what Describe announces is the count ParseParameters reported
	var oids []uint32
	switch k := (len(q) + n) % 5; k {
	case 1:
		oids = make([]uint32, 1)
	case 2:
		oids = make([]uint32, n)
	case 3:
		oids = make([]uint32, n+1)
	case 4:
		if n > 1 {
			oids = make([]uint32, n-1)
		}
	}
	if len(oids) > 2000 {
		oids = nil
	}
	b := append(pgwire.Parse("s", q, oids), pgwire.Describe('S', "s")...)
	if (len(q)+n)%3 == 1 {
		// the name held another statement before (with fewer, or with more, placeholders): what Describe
		// announces is the count of the text parsed last
		first := "select 1"
		if n%2 == 1 {
			first = "select $1, $2, $3, $4, $5, $6, $7, $8, $9"
		}
		b = append(pgwire.Parse("s", first, nil), b...)
	}
	b = append(b, pgwire.Sync()...)
	r := s.Send(b)
	if r.Err != nil {
		return "malformed reply: " + r.Err.Error()
	}
	if ps := env.Panics(); len(ps) > 0 {
		return "server panicked: " + ps[0].Value
	}
	for _, ev := range env.Trace() {
		if ev.K == "panic" {
			return "parser callback panicked (ParseParameters): " + ev.Panic
		}
	}
	for _, m := range r.Msgs {
		if m.Type == 't' {
			if len(m.OIDs) != n {
				return fmt.Sprintf("Describe announces %d parameters, ParseParameters reported %d (query %q)", len(m.OIDs), n, clip(q))
			}
			return ""
		}
	}
	return fmt.Sprintf("no ParameterDescription in %v for query %q", pgwire.Briefs(r.Msgs), clip(q))
}

func clip(s string) string {
	if len(s) > 120 {
		return s[:120] + "..."
	}
	return s
}

// normalizeOver rewrites every $n marker with n > 65535 as $65536.
func normalizeOver(q string) string {
	var sb strings.Builder
	lim := big.NewInt(maxParams)
	for i := 0; i < len(q); {
		if q[i] == '$' && i+1 < len(q) && isDigit(q[i+1]) {
			j := i + 1
			for j < len(q) && isDigit(q[j]) {
				j++
			}
			n, _ := new(big.Int).SetString(q[i+1:j], 10)
			if n.Cmp(lim) > 0 {
				sb.WriteString("$65536")
			} else {
				sb.WriteString(q[i:j])
			}
			i = j
			continue
		}
		sb.WriteByte(q[i])
		i++
	}
	return sb.String()
}
