// Package c13: COPY-in - data delivered in order, abort reported exactly once.
package c13

import (
	"verif/harness/core"
	"verif/harness/play"
	"verif/harness/script"
)

type Case struct {
	play.History
	Classes []string `json:"classes,omitempty"`
}

func Run(c Case) core.Result {
	res := core.Result{Labels: c.Classes}
	for _, cl := range c.Classes {
		switch cl {
		case "copyfail", "foreign-message-in-copy", "flush-sync-between-copydata", "handler-stops-early", "stray-copy-messages", "oversized-in-copy":
			res.NonTrivial = true
		}
	}
	o := play.Run(c.History, play.Options{Prefix: "C13"})
	res.Inconclusive = o.Inconclusive
	if o.Violation != "" {
		res.Sig, res.Violation = o.Sig, o.Violation
		res.Detail = map[string]any{"transcript": o.Transcript}
		return res
	}
	return res
}

var _ = script.CMsg{}
