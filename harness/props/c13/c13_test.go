package c13

import (
	"sort"
	"testing"

	"pgregory.net/rapid"

	"verif/harness/core"
	"verif/harness/gen"
	"verif/harness/pgwire"
	"verif/harness/script"
)

func TestMain(m *testing.M) {
	core.Main(m, "C13", "cases = a statement that starts COPY-in (text or binary, 1..8 columns) with a generated read policy (read to EOF / stop after k chunks with or without error / on abort propagate, return own error, or swallow), started by simple Query or by Execute; then up to 20 COPY-phase messages CopyData(0..3000 bytes, some oversized)/Flush/Sync/CopyDone/CopyFail/Query/Parse/unknown type, stray COPY messages outside COPY mode and a final ordinary query; every message sent alone and compared with the reference model (replies, chunks and errors seen by the handler); non-trivial = CopyFail or a foreign message during COPY, Flush/Sync between CopyData, handler stopping early, stray COPY messages, or an oversized message during COPY; distinct = distinct canonical JSON")
}

const limit = 2048

func genCase(t *rapid.T) Case {
	c := Case{}
	class := map[string]bool{}
	c.Cfg.SetLimit, c.Cfg.Limit = true, limit
	nc := rapid.IntRange(1, 8).Draw(t, "ncols")
	if rapid.IntRange(0, 7).Draw(t, "wide-table?") == 0 {
		nc = rapid.SampledFrom([]int{31, 32, 33, 40, 64, 65, 100, 255, 256, 1000}).Draw(t, "ncols-wide")
		class["wide-table(>30 columns)"] = true
	}
	cs := &script.CopySpec{Format: int16(rapid.IntRange(0, 1).Draw(t, "format")), MaxReads: -1}
	switch rapid.IntRange(0, 3).Draw(t, "policy") {
	case 0:
		cs.MaxReads = rapid.IntRange(0, 4).Draw(t, "max-reads")
		if rapid.Bool().Draw(t, "stop-with-error") {
			cs.StopErr = gen.SmallErr().Draw(t, "stop-err")
		}
		class["handler-stops-early"] = true
	}
	cs.OnAbort = rapid.SampledFrom([]string{"propagate", "propagate", "own", "swallow"}).Draw(t, "on-abort")
	if cs.OnAbort == "own" {
		cs.Own = gen.SmallErr().Draw(t, "own-err")
	}
	st := script.Stmt{Cols: gen.Cols(nc, gen.SimpleTypes).Draw(t, "cols")}
	// (COPY for a statement without columns is refused by the library today; the property does not say
	// so, hence it is not generated here)
	st.Ops = append(st.Ops, script.Op{K: "copyin", Copy: cs})
	if rapid.IntRange(0, 4).Draw(t, "complete?") != 0 {
		st.Ops = append(st.Ops, script.Op{K: "complete", Tag: "COPY 1"})
	}
	if rapid.IntRange(0, 5).Draw(t, "second-copy?") == 0 {
		st.Ops = append(st.Ops, script.Op{K: "copyin", Copy: cs}) // after completion: must fail without bytes
	}
	c.Cfg.Table.Q = map[string]script.Outcome{
		"copy t from stdin": {Stmts: []script.Stmt{st}},
		"select 1":          {Stmts: []script.Stmt{{Cols: []script.Col{{Name: "a", T: "int4"}}, Ops: []script.Op{{K: "row", Vals: []script.Val{{T: "int4", I: 1}}}, {K: "complete", Tag: "SELECT 1"}}}}},
	}
	extended := rapid.Bool().Draw(t, "extended?")
	if extended {
		class["started-by-execute"] = true
		bind := script.CMsg{K: "B"}
		switch rapid.IntRange(0, 3).Draw(t, "bind-result-formats") {
		case 1:
			bind.RFmts = []int16{1 - cs.Format}
		case 2:
			for i := 0; i < nc; i++ {
				bind.RFmts = append(bind.RFmts, int16(rapid.IntRange(0, 1).Draw(t, "rfmt")))
			}
		}
		if bind.RFmts != nil {
			class["bind-result-formats-differ-from-copy-format"] = true
		}
		c.Msgs = append(c.Msgs, script.CMsg{K: "P", Query: "copy t from stdin"}, bind, script.CMsg{K: "E"})
	} else {
		class["started-by-query"] = true
		c.Msgs = append(c.Msgs, script.CMsg{K: "Q", Query: "copy t from stdin"})
	}
	n := rapid.IntRange(0, 20).Draw(t, "ncopy")
	sawData := false
	for i := 0; i < n; i++ {
		k := rapid.IntRange(0, 19).Draw(t, "copy-msg")
		switch {
		case k <= 9:
			var data []byte
			switch rapid.IntRange(0, 5).Draw(t, "payload-kind") {
			case 0:
				data = []byte{}
			case 1:
				data = make([]byte, rapid.SampledFrom([]int{limit - 1, limit, 1500}).Draw(t, "big"))
				for j := range data {
					data[j] = byte(j*7 + i)
				}
			default:
				data = rapid.SliceOfN(rapid.Byte(), 0, 60).Draw(t, "payload")
			}
			c.Msgs = append(c.Msgs, script.CMsg{K: "d", Data: data})
			sawData = true
		case k <= 11:
			c.Msgs = append(c.Msgs, script.CMsg{K: rapid.SampledFrom([]string{"H", "S"}).Draw(t, "flush-or-sync")})
			if sawData {
				class["flush-sync-between-copydata"] = true
			}
		case k == 12:
			c.Msgs = append(c.Msgs, script.CMsg{K: "c"})
			class["copydone"] = true
		case k == 13:
			c.Msgs = append(c.Msgs, script.CMsg{K: "f", Data: []byte(rapid.SampledFrom([]string{"", "client gave up", "é"}).Draw(t, "fail-msg"))})
			class["copyfail"] = true
		case k == 14:
			c.Msgs = append(c.Msgs, script.CMsg{K: "Q", Query: "select 1"})
			class["foreign-message-in-copy"] = true
		case k == 15:
			c.Msgs = append(c.Msgs, script.CMsg{K: "P", Name: "x", Query: "select 1"})
			class["foreign-message-in-copy"] = true
		case k == 16:
			// every other frontend message type is foreign to a COPY stream as well (Terminate included:
			// to the reader it is an abort, not an end of data)
			switch rapid.IntRange(0, 7).Draw(t, "foreign-kind") {
			case 0:
				c.Msgs = append(c.Msgs, script.CMsg{K: "raw", Data: []byte{'Y', 0, 0, 0, 4}})
			case 1:
				c.Msgs = append(c.Msgs, script.CMsg{K: "X"})
			case 2:
				c.Msgs = append(c.Msgs, script.CMsg{K: "B", Portal: "x", Name: "x"})
			case 3:
				c.Msgs = append(c.Msgs, script.CMsg{K: "D", Kind: 'S', Name: "x"})
			case 4:
				c.Msgs = append(c.Msgs, script.CMsg{K: "E", Portal: "x"})
			case 5:
				c.Msgs = append(c.Msgs, script.CMsg{K: "C", Kind: 'P', Portal: "x"})
			case 6:
				c.Msgs = append(c.Msgs, script.CMsg{K: "raw", Data: pgwire.Password("pw")})
			default:
				c.Msgs = append(c.Msgs, script.CMsg{K: "raw", Data: pgwire.Msg('F', []byte{0, 0, 0, 1, 0, 0, 0, 0, 0, 0})})
			}
			class["foreign-message-in-copy"] = true
		case k == 17:
			body := make([]byte, limit+1+rapid.IntRange(0, 3000).Draw(t, "over"))
			c.Msgs = append(c.Msgs, script.CMsg{K: "raw", Over: true, Data: pgwire.Msg('d', body)})
			class["oversized-in-copy"] = true
		default:
			c.Msgs = append(c.Msgs, script.CMsg{K: "d", Data: []byte("x")})
			sawData = true
		}
	}
	// leave COPY mode for sure, then stray COPY messages outside COPY mode
	c.Msgs = append(c.Msgs, script.CMsg{K: "c"})
	ns := rapid.IntRange(0, 4).Draw(t, "nstray")
	for i := 0; i < ns; i++ {
		switch rapid.IntRange(0, 2).Draw(t, "stray") {
		case 0:
			c.Msgs = append(c.Msgs, script.CMsg{K: "d", Data: []byte("stray")})
		case 1:
			c.Msgs = append(c.Msgs, script.CMsg{K: "c"})
		default:
			c.Msgs = append(c.Msgs, script.CMsg{K: "f", Data: []byte("stray")})
		}
		class["stray-copy-messages"] = true
	}
	c.Msgs = append(c.Msgs, script.CMsg{K: "S"}, script.CMsg{K: "Q", Query: "select 1"})
	if rapid.IntRange(0, 7).Draw(t, "inside-tls") == 3 {
		c.TLS = true
		class["inside-tls"] = true
	}
	for k := range class {
		c.Classes = append(c.Classes, k)
	}
	sort.Strings(c.Classes)
	return c
}

func TestProp(t *testing.T) {
	core.RunProp(t, "main", core.Scale(2000), genCase, Run)
}

func TestReplay(t *testing.T) {
	core.Replay(t, map[string]func(Case) core.Result{"main": Run})
}

// FuzzGen: coverage-guided search over the same generated cases (thorough tier).
func FuzzGen(f *testing.F) {
	core.FuzzProp(f, "main", genCase, Run)
}
