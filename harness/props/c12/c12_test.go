package c12

import (
	"fmt"
	"testing"

	"pgregory.net/rapid"

	"verif/harness/core"
	"verif/harness/gen"
)

func TestMain(m *testing.M) {
	core.Main(m, "C12", "cases = server configuration (global parameter map nil/empty/1..8 entries, version, auth none/clear-text) x 1..8 connections (sequential or concurrently connecting with distinct users) whose startup packets carry 0..12 key/value pairs (well-known keys, UTF-8, empty values, duplicates, pairs after the terminator) or are malformed (missing terminator, dangling key) or are CancelRequests (first packet, after an SSL refusal, inside TLS after an accepted SSLRequest; process ids / keys whose bytes could be read as start-up parameters); non-trivial = >= 2 concurrent connections with different users and a non-empty global map, duplicates / empty values / surplus pairs, or a cancel after SSL negotiation; distinct = distinct canonical JSON")
}

var wellKnown = []string{"database", "application_name", "client_encoding", "options", "DateStyle", "extra_float_digits"}

func genConn(t *rapid.T, i int, auth bool) Conn {
	c := Conn{Kind: rapid.SampledFrom([]string{"ok", "ok", "ok", "ok", "ok", "ssl-ok", "no-terminator", "dangling-key", "cancel", "ssl-cancel"}).Draw(t, "kind")}
	if auth {
		c.Pass = "pw"
	}
	if rapid.IntRange(0, 9).Draw(t, "no-user?") != 0 {
		c.Pairs = append(c.Pairs, [2]string{"user", fmt.Sprintf("user%d%s", i, rapid.SampledFrom([]string{"", "é", " x"}).Draw(t, "user-suffix"))})
	}
	n := rapid.IntRange(0, 11).Draw(t, "npairs")
	for j := 0; j < n; j++ {
		var k string
		switch rapid.IntRange(0, 3).Draw(t, "key-kind") {
		case 0:
			k = gen.NonEmptyCString(40).Draw(t, "key")
		case 1:
			if len(c.Pairs) > 0 {
				k = c.Pairs[rapid.IntRange(0, len(c.Pairs)-1).Draw(t, "dup")][0]
				break
			}
			fallthrough
		default:
			k = rapid.SampledFrom(wellKnown).Draw(t, "key")
		}
		v := gen.CString(200).Draw(t, "value")
		c.Pairs = append(c.Pairs, [2]string{k, v})
	}
	if auth {
		// the scripted validator accepts user "*": every connection authenticates with the same password
		for j := range c.Pairs {
			if c.Pairs[j][0] == "user" {
				c.Pairs[j][1] = "*"
			}
		}
		if userOf(c.Pairs) != "*" {
			c.Pairs = append([][2]string{{"user", "*"}}, c.Pairs...)
		}
	}
	if rapid.IntRange(0, 5).Draw(t, "surplus?") == 0 {
		c.Surplus = [][2]string{{"user", "surplus-user"}, {"k", "v"}}
	}
	return c
}

func genCase(t *rapid.T) Case {
	c := Case{}
	switch rapid.IntRange(0, 3).Draw(t, "params-kind") {
	case 0:
	case 1:
		c.HasParams = true
	default:
		c.HasParams = true
		c.Params = map[string]string{}
		n := rapid.IntRange(1, 8).Draw(t, "nparams")
		for i := 0; i < n; i++ {
			c.Params[fmt.Sprintf("p%d_%s", i, rapid.StringMatching(`[a-z]{0,5}`).Draw(t, "pkey"))] = gen.CString(100).Draw(t, "pval")
		}
		// an application may configure a parameter under a name the server also states itself
		if rapid.IntRange(0, 3).Draw(t, "builtin-name?") == 0 {
			k := rapid.SampledFrom([]string{"client_encoding", "server_encoding", "session_authorization", "server_version", "is_superuser", "application_name", "DateStyle"}).Draw(t, "builtin-key")
			c.Params[k] = rapid.SampledFrom([]string{"LATIN1", "UTF8", "on", "configured-value", ""}).Draw(t, "builtin-val")
		}
	}
	if c.HasParams && rapid.IntRange(0, 3).Draw(t, "earlier-call?") == 0 {
		c.HasEarlier = true
		c.Earlier = map[string]string{}
		for i, n := 0, rapid.IntRange(0, 4).Draw(t, "nearlier"); i < n; i++ {
			c.Earlier[fmt.Sprintf("p%d_%s", rapid.IntRange(0, 9).Draw(t, "ekey"), rapid.StringMatching(`[a-z]{0,2}`).Draw(t, "ekey2"))] = gen.CString(20).Draw(t, "eval")
		}
	}
	if rapid.Bool().Draw(t, "version?") {
		c.Version = rapid.SampledFrom([]string{"15.0", "9.6.24", "psql-wire é", " "}).Draw(t, "version")
	}
	c.Auth = rapid.IntRange(0, 3).Draw(t, "auth?") == 0
	c.OptSeed = rapid.IntRange(0, 1000).Draw(t, "option-order")
	n := rapid.SampledFrom([]int{1, 1, 2, 3, 4, 8}).Draw(t, "nconns")
	for i := 0; i < n; i++ {
		c.Conns = append(c.Conns, genConn(t, i, c.Auth))
	}
	// with certificates configured the SSL negotiation succeeds: cancel packets then arrive inside TLS
	if c.TLS = rapid.IntRange(0, 3).Draw(t, "certificates") == 0; c.TLS {
		for i := range c.Conns {
			switch c.Conns[i].Kind {
			case "ssl-ok":
				c.Conns[i].Kind = "tls-ok"
			case "ssl-cancel":
				c.Conns[i].Kind = "tls-cancel"
			}
		}
	}
	for i := range c.Conns {
		if k := c.Conns[i].Kind; (k == "cancel" || k == "ssl-cancel" || k == "tls-cancel") && rapid.Bool().Draw(t, "cancel-content") {
			c.Conns[i].PID = rapid.SampledFrom([]uint32{0, 1, 0x00FFFFFF, 0x01000000, 0x75736572, 0xFFFFFFFF}).Draw(t, "pid")
			c.Conns[i].Key = rapid.SampledFrom([]uint32{0, 1, 0x00000000, 0x75000000, 0xFFFFFFFF}).Draw(t, "key")
		}
	}
	c.Parallel = n > 1 && rapid.Bool().Draw(t, "parallel")
	if rapid.IntRange(0, 3).Draw(t, "traffic-first?") == 0 {
		c.Traffic = rapid.SampledFrom([]int{1000, 4096, 9000, 20000}).Draw(t, "traffic")
	}
	return c
}

func TestProp(t *testing.T) {
	core.RunProp(t, "main", core.Scale(2000), genCase, Run)
}

func TestReplay(t *testing.T) {
	core.Replay(t, map[string]func(Case) core.Result{"main": Run})
}

// FuzzGen: coverage-guided search over the same generated cases (thorough tier).
func FuzzGen(f *testing.F) {
	core.FuzzProp(f, "main", genCase, Run)
}
