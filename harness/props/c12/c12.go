// Package c12: startup negotiation delivers parameters both ways, once, in order.
package c12

import (
	"fmt"
	"sort"
	"strings"
	"sync"

	"verif/harness/core"
	"verif/harness/memnet"
	"verif/harness/pgwire"
	"verif/harness/script"
)

// Conn is the startup behaviour of one client.
type Conn struct {
	Kind    string      `json:"kind"` // ok | no-terminator | dangling-key | cancel | ssl-cancel | ssl-ok
	Pairs   [][2]string `json:"pairs"`
	Surplus [][2]string `json:"surplus,omitempty"` // pairs after the terminator
	Pass    string      `json:"pass,omitempty"`
	// PID, Key: content of the CancelRequest (kinds cancel, ssl-cancel, tls-cancel); 0 = 1234 / 5678
	PID uint32 `json:"pid,omitempty"`
	Key uint32 `json:"key,omitempty"`
}

func (c Conn) cancel() []byte {
	pid, key := c.PID, c.Key
	if pid == 0 && key == 0 {
		pid, key = 1234, 5678
	}
	return pgwire.CancelRequest(pid, key)
}

type Case struct {
	Params    map[string]string `json:"params,omitempty"`
	HasParams bool              `json:"has_params,omitempty"`
	// Earlier: map of an earlier GlobalParameters call (see script.Config.Earlier)
	Earlier    map[string]string `json:"earlier,omitempty"`
	HasEarlier bool              `json:"has_earlier,omitempty"`
	Version    string            `json:"version,omitempty"`
	Auth       bool              `json:"auth,omitempty"`
	Conns      []Conn            `json:"conns"`
	Parallel   bool              `json:"parallel,omitempty"`
	TLS        bool              `json:"tls,omitempty"`     // certificates configured (connection kind tls-cancel)
	Traffic    int               `json:"traffic,omitempty"` // bytes of other queries before the handlers' view is recorded
	OptSeed    int               `json:"opt_seed,omitempty"`
}

const q = "select 1"

func userOf(pairs [][2]string) string {
	u := ""
	for _, kv := range pairs {
		if kv[0] == "user" {
			u = kv[1] // any duplicate accepted later
		}
	}
	return u
}

func (c Conn) bytes() []byte {
	body := pgwire.StartupBody(c.Pairs)
	switch c.Kind {
	case "no-terminator":
		body = body[:len(body)-1]
	case "dangling-key":
		body = append(body[:len(body)-1], []byte("dangling")...)
		body = append(body, 0, 0) // key, then the terminator is eaten as its empty value
	}
	for _, kv := range c.Surplus {
		body = append(body, kv[0]...)
		body = append(body, 0)
		body = append(body, kv[1]...)
		body = append(body, 0)
	}
	return pgwire.Untyped(pgwire.Version30, body)
}

type connResult struct {
	sig, msg     string
	inconclusive string
}

func runConn(env *script.Env, c Case, cc Conn) (r connResult) {
	if cc.Kind == "tls-cancel" {
		// the server has certificates: SSLRequest, 'S', TLS handshake, then the CancelRequest inside TLS
		ts, err := env.NewTLSSess()
		if err != nil {
			return connResult{sig: "C12/tls/negotiation", msg: "TLS negotiation failed: " + err.Error()}
		}
		st := ts.Send(cc.cancel())
		switch {
		case st.State == memnet.Timeout:
			return connResult{inconclusive: "cancel inside TLS: guard"}
		case len(st.Raw) != 0:
			return connResult{sig: "C12/cancel/reply", msg: fmt.Sprintf("connection %d: CancelRequest after the TLS upgrade answered with %v", ts.C.ID, pgwire.Briefs(st.Msgs))}
		case st.State != memnet.Closed:
			return connResult{sig: "C12/cancel/not-closed", msg: fmt.Sprintf("connection %d: not closed after a CancelRequest inside TLS", ts.C.ID)}
		}
		for _, ev := range env.TraceOf(ts.C.ID) {
			return connResult{sig: "C12/cancel/callback", msg: fmt.Sprintf("connection %d: CancelRequest inside TLS: callback %s ran", ts.C.ID, ev.K)}
		}
		return
	}
	if cc.Kind == "tls-ok" {
		// SSLRequest accepted, TLS handshake, then the start-up exchange - all of it inside the TLS session
		ts, err := env.NewTLSSess()
		if err != nil {
			return connResult{sig: "C12/tls/negotiation", msg: "TLS negotiation failed: " + err.Error()}
		}
		var pw *string
		if c.Auth {
			pw = &cc.Pass
		}
		st := ts.Startup(cc.Pairs, pw)
		switch {
		case st.State == memnet.Timeout:
			return connResult{inconclusive: "start-up inside TLS: guard"}
		case st.Err != nil:
			return connResult{sig: "C12/tls/grammar", msg: fmt.Sprintf("connection %d: start-up reply inside TLS: %v", ts.C.ID, st.Err)}
		case !script.Ready(st.Msgs):
			return connResult{sig: "C12/tls/startup-reply", msg: fmt.Sprintf("connection %d: the start-up exchange inside TLS did not end in ReadyForQuery: %v (state %s)", ts.C.ID, pgwire.Briefs(st.Msgs), st.State)}
		}
		n := 0
		for _, m := range st.Msgs {
			if m.Type == 'Z' {
				n++
			}
		}
		if n != 1 {
			return connResult{sig: "C12/ready", msg: fmt.Sprintf("connection %d (TLS): %d ReadyForQuery messages", ts.C.ID, n)}
		}
		return
	}
	s := env.NewSess()
	fail := func(sig, f string, a ...any) connResult {
		return connResult{sig: sig, msg: fmt.Sprintf("connection %d (%s): ", s.C.ID, cc.Kind) + fmt.Sprintf(f, a...)}
	}
	noCallbacks := func() string {
		for _, ev := range env.TraceOf(s.C.ID) {
			return fmt.Sprintf("callback %s ran", ev.K)
		}
		return ""
	}
	switch cc.Kind {
	case "cancel", "ssl-cancel":
		var b []byte
		if cc.Kind == "ssl-cancel" {
			b = pgwire.SSLRequest()
		}
		b = append(b, cc.cancel()...)
		s.C.Send(b)
		st := s.C.WaitIdle(script.Guard)
		if st == memnet.Timeout {
			return connResult{inconclusive: "cancel: guard"}
		}
		out := s.C.Output()
		want := ""
		if cc.Kind == "ssl-cancel" {
			want = "N"
		}
		if string(out) != want {
			return fail("C12/cancel/reply", "CancelRequest answered with %q, want %q", out, want)
		}
		if st != memnet.Closed {
			return fail("C12/cancel/not-closed", "connection not closed after CancelRequest")
		}
		if d := noCallbacks(); d != "" {
			return fail("C12/cancel/callback", "%s", d)
		}
		return
	}
	b := cc.bytes()
	if cc.Kind == "ssl-ok" {
		b = append(pgwire.SSLRequest(), b...)
	}
	if c.Auth {
		b = append(b, pgwire.Password(cc.Pass)...)
	}
	st := s.Send(b)
	if cc.Kind == "ssl-ok" {
		// the reply starts with the single byte 'N'
		out := s.C.Output()
		if len(out) == 0 || out[0] != 'N' {
			return fail("C12/ssl-reply", "SSLRequest without certificates answered %q", out)
		}
		s = &script.Sess{Env: env, C: s.C}
		s.SkipByte()
		st = s.Collect()
	}
	if st.State == memnet.Timeout {
		return connResult{inconclusive: "startup: guard"}
	}
	if st.Err != nil {
		return fail("C12/grammar", "%v", st.Err)
	}
	if cc.Kind == "no-terminator" || cc.Kind == "dangling-key" {
		for _, m := range st.Msgs {
			if (m.Type == 'R' && m.Auth == 0) || m.Type == 'Z' || m.Type == 'S' {
				return fail("C12/malformed/served", "malformed startup packet was served: %v", pgwire.Briefs(st.Msgs))
			}
		}
		if st.State != memnet.Closed {
			return fail("C12/malformed/not-closed", "malformed startup packet: connection left open: %v", pgwire.Briefs(st.Msgs))
		}
		if d := noCallbacks(); d != "" {
			return fail("C12/malformed/callback", "%s", d)
		}
		return
	}
	user := userOf(cc.Pairs)
	// expected reply: auth exchange, ParameterStatus multiset, one Z(I)
	i := 0
	msgs := st.Msgs
	if c.Auth {
		if len(msgs) < 1 || msgs[0].Type != 'R' || msgs[0].Auth != 3 {
			return fail("C12/auth-exchange", "expected AuthenticationCleartextPassword first: %v", pgwire.Briefs(msgs))
		}
		i = 1
	}
	if len(msgs) <= i || msgs[i].Type != 'R' || msgs[i].Auth != 0 {
		return fail("C12/auth-ok", "expected AuthenticationOk at position %d: %v", i, pgwire.Briefs(msgs))
	}
	i++
	// the configured parameters, then the ones the server states itself (they are what the property
	// says they are, also when the configured map happens to use the same names)
	want := map[string]string{}
	for k, v := range c.Params {
		want[k] = v
	}
	for k, v := range map[string]string{"server_encoding": "UTF8", "client_encoding": "UTF8", "session_authorization": user} {
		want[k] = v
	}
	if _, configured := c.Params["is_superuser"]; !configured {
		want["is_superuser"] = "off"
	}
	if c.Version != "" {
		want["server_version"] = c.Version
	}
	got := map[string]string{}
	for ; i < len(msgs) && msgs[i].Type == 'S'; i++ {
		if _, dup := got[msgs[i].Key]; dup {
			return fail("C12/parameter-status/duplicate", "ParameterStatus %q sent twice: %v", msgs[i].Key, pgwire.Briefs(msgs))
		}
		got[msgs[i].Key] = msgs[i].Val
	}
	// whether a later GlobalParameters call replaces or extends an earlier one is not stated: keys
	// that only the earlier map has may be announced (with its value) or not
	if c.HasEarlier {
		for k, v := range c.Earlier {
			if _, inMain := want[k]; !inMain && got[k] == v {
				delete(got, k)
			}
		}
	}
	if _, ok := got["is_superuser"]; ok {
		want["is_superuser"] = got["is_superuser"] // the property names the parameter, not its value
	}
	if d := diffMaps(want, got); d != "" {
		return fail("C12/parameter-status/set", "ParameterStatus set differs: %s", d)
	}
	if i != len(msgs)-1 || msgs[i].Type != 'Z' || msgs[i].Status != 'I' {
		return fail("C12/ready", "expected exactly one ReadyForQuery(I) after the parameters: %v", pgwire.Briefs(msgs))
	}
	// what handlers see - also after the connection has carried Traffic bytes of other queries (the
	// client parameters are handed out once and must stay what they were)
	for sent := 0; sent < c.Traffic; {
		n := 700 + sent%1300
		fq := "filler " + strings.Repeat("f", n)
		if rr := s.Send(pgwire.Query(fq)); rr.State != memnet.Idle {
			return connResult{inconclusive: "filler query: " + rr.State.String()}
		}
		sent += n
	}
	r2 := s.Send(pgwire.Query(q))
	if r2.State == memnet.Timeout {
		return connResult{inconclusive: "query: guard"}
	}
	var obs *script.CtxObs
	for _, ev := range env.TraceOf(s.C.ID) {
		if ev.K == "parse" {
			obs = ev.Ctx
		}
	}
	if obs == nil {
		return fail("C12/no-parse", "query did not reach the parser: %v", pgwire.Briefs(r2.Msgs))
	}
	sent := map[string][]string{}
	for _, kv := range cc.Pairs {
		sent[kv[0]] = append(sent[kv[0]], kv[1])
	}
	if len(obs.Client) != len(sent) {
		return fail("C12/client-params/keys", "handler sees client parameters %v, sent %v", obs.Client, cc.Pairs)
	}
	for k, vals := range sent {
		g, ok := obs.Client[k]
		if !ok {
			return fail("C12/client-params/missing", "client parameter %q missing in handler context: %v", k, obs.Client)
		}
		found := false
		for _, v := range vals {
			found = found || v == g
		}
		if !found {
			return fail("C12/client-params/value", "client parameter %q = %q in handler context, sent %q", k, g, vals)
		}
	}
	if obs.User != user && len(sent["user"]) <= 1 {
		return fail("C12/username", "AuthenticatedUsername = %q, sent %q", obs.User, user)
	}
	if len(sent["user"]) > 1 {
		delete(want, "session_authorization")
		delete(obs.Server, "session_authorization")
	}
	if d := diffMaps(want, obs.Server); d != "" {
		return fail("C12/server-params", "ServerParameters(ctx) differs from the announced set: %s", d)
	}
	return
}

func diffMaps(want, got map[string]string) string {
	var keys []string
	for k := range want {
		keys = append(keys, k)
	}
	for k := range got {
		if _, ok := want[k]; !ok {
			keys = append(keys, k)
		}
	}
	sort.Strings(keys)
	for _, k := range keys {
		w, okw := want[k]
		g, okg := got[k]
		switch {
		case !okg:
			return fmt.Sprintf("%q missing (want %q)", k, w)
		case !okw:
			return fmt.Sprintf("unexpected %q=%q", k, g)
		case w != g:
			return fmt.Sprintf("%q=%q, want %q", k, g, w)
		}
	}
	return ""
}

func Run(c Case) core.Result {
	res := core.Result{}
	users := map[string]bool{}
	for _, cc := range c.Conns {
		res.Labels = append(res.Labels, "kind="+cc.Kind)
		users[userOf(cc.Pairs)] = true
		seen := map[string]bool{}
		for _, kv := range cc.Pairs {
			if seen[kv[0]] {
				res.Labels = append(res.Labels, "duplicate-key")
				res.NonTrivial = true
			}
			seen[kv[0]] = true
			if kv[1] == "" {
				res.Labels = append(res.Labels, "empty-value")
				res.NonTrivial = true
			}
		}
		if len(cc.Surplus) > 0 {
			res.Labels = append(res.Labels, "surplus-pairs")
			res.NonTrivial = true
		}
		if cc.Kind == "ssl-cancel" || cc.Kind == "tls-cancel" {
			res.NonTrivial = true
			res.Labels = append(res.Labels, cc.Kind)
		}
	}
	if c.Parallel && len(users) >= 2 && len(c.Params) > 0 {
		res.Labels = append(res.Labels, "concurrent-users+global-map")
		res.NonTrivial = true
	}
	res.Labels = append(res.Labels, fmt.Sprintf("connections=%d", len(c.Conns)))

	cfg := script.Config{Params: c.Params, HasParams: c.HasParams, Earlier: c.Earlier, HasEarlier: c.HasEarlier && c.HasParams, Version: c.Version, SetLimit: true, Limit: 1 << 14, OptSeed: c.OptSeed}
	if c.TLS {
		cfg.TLS = "cert"
	}
	cfg.Table.Q = map[string]script.Outcome{q: {Stmts: []script.Stmt{{Ops: []script.Op{{K: "complete", Tag: "OK"}}}}}}
	cfg.Table.Def = &script.Outcome{Stmts: []script.Stmt{{Ops: []script.Op{{K: "complete", Tag: "FILLER"}}}}}
	if c.Auth {
		cfg.Auth = &script.AuthSpec{User: "*", Pass: "pw"}
	}
	mark := core.RaceMark()
	env := script.Start(cfg)
	defer env.Stop()
	results := make([]connResult, len(c.Conns))
	if c.Parallel {
		var wg sync.WaitGroup
		for i := range c.Conns {
			wg.Add(1)
			go func(i int) {
				defer wg.Done()
				results[i] = runConn(env, c, c.Conns[i])
			}(i)
		}
		wg.Wait()
	} else {
		for i := range c.Conns {
			results[i] = runConn(env, c, c.Conns[i])
		}
	}
	if ps := env.Panics(); len(ps) > 0 {
		res.Sig, res.Violation = "C12/panic", "connection goroutine panicked: "+ps[0].Value
		return res
	}
	for _, r := range results {
		if r.inconclusive != "" {
			res.Inconclusive = r.inconclusive
		}
		if r.sig != "" {
			res.Sig, res.Violation = r.sig, r.msg
			return res
		}
	}
	if ok, d := env.UserMapIntact(); !ok {
		res.Sig, res.Violation = "C12/user-map-modified", d
		return res
	}
	return core.RaceResult(res, "C12", core.RaceSince(mark))
}
