package c11

import (
	"fmt"
	"strings"

	"verif/harness/core"
	"verif/harness/memnet"
	"verif/harness/pgwire"
	"verif/harness/script"
)

// The "ssl-idle" client: the session is played message by message, and at
// generated points a long time passes on the connection (every deadline the
// server has armed at that moment expires - memnet keeps deadlines virtual).
// The TLS session must behave exactly like its plaintext equivalent that idles
// at the same points: whatever time limits the server applies to a connection,
// the upgrade must not leave one behind.

type idleOut struct {
	steps [][]string
	trace []string
	inc   string
	note  string
}

func runIdle(c Case, inTLS bool) idleOut {
	var o idleOut
	env := script.Start(c.config())
	defer env.Stop()
	var s script.Session
	if inTLS {
		ts, err := env.NewTLSSess()
		if err != nil {
			o.note = "TLS negotiation failed: " + err.Error()
			return o
		}
		s = ts
	} else {
		s = env.NewSess()
	}
	idle := map[int]bool{}
	for _, i := range c.IdleAt {
		idle[i] = true
	}
	pass := (*string)(nil)
	if c.Auth {
		p := marker + "-PASSWORD"
		if c.BadPass {
			p = marker + "-NOT-THE-PASSWORD"
		}
		pass = &p
	}
	elapse := func(i int) {
		if idle[i] {
			s.Conn().ElapseDeadlines()
		}
	}
	elapse(-1)
	st := s.Startup([][2]string{{"user", "tls-user"}, {"database", "db"}}, pass)
	if st.State == memnet.Timeout {
		o.inc = "idle session: startup guard"
		return o
	}
	o.steps = append(o.steps, pgwire.Canon(st.Msgs))
	for i, m := range c.Msgs {
		if st.State == memnet.Closed {
			break
		}
		elapse(i)
		st = s.Send(m.Bytes())
		if st.State == memnet.Timeout {
			o.inc = fmt.Sprintf("idle session: message %d guard", i)
			return o
		}
		o.steps = append(o.steps, pgwire.Canon(st.Msgs))
	}
	o.trace = norm(env.Trace())
	return o
}

func runIdleCase(c Case, res core.Result) core.Result {
	a, b := runIdle(c, true), runIdle(c, false)
	if a.inc != "" || b.inc != "" {
		res.Inconclusive = a.inc + b.inc
		return res
	}
	if a.note != "" {
		return core.Fail("C11/idle/handshake", "%s", a.note)
	}
	res.NonTrivial = len(c.IdleAt) > 0 && len(c.Msgs) > 0
	res.Labels = append(res.Labels, fmt.Sprintf("idle-periods=%d", len(c.IdleAt)))
	if len(a.steps) != len(b.steps) {
		return core.Fail("C11/idle/tls-vs-plaintext", "idling at %v: the TLS session answered %d steps, the plaintext one %d:\nTLS:       %v\nplaintext: %v", c.IdleAt, len(a.steps), len(b.steps), a.steps, b.steps)
	}
	for i := range a.steps {
		if strings.Join(a.steps[i], "\n") != strings.Join(b.steps[i], "\n") {
			return core.Fail("C11/idle/tls-vs-plaintext", "idling at %v: step %d (0 = start-up) differs between the TLS session and its plaintext equivalent:\nTLS:       %v\nplaintext: %v", c.IdleAt, i, a.steps[i], b.steps[i])
		}
	}
	if d := diff(a.trace, b.trace); d != "" {
		return core.Fail("C11/idle/trace", "%s", d)
	}
	return res
}
