package c11

import (
	"testing"

	"pgregory.net/rapid"

	"verif/harness/core"
	"verif/harness/script"
)

func TestMain(m *testing.M) {
	core.Main(m, "C11", "client ssl-idle: the session played message by message inside TLS and in plaintext, with a long idle time (every deadline the server armed expires; deadlines are virtual in the in-memory transport) at generated points, transcripts and callbacks equal; cases = server TLS configuration (none, empty config, self-signed certificate with TLS1.2 or TLS1.3 minimum) x client behaviour around the SSLRequest (plain startup; SSLRequest + handshake + startup; SSLRequest with a complete startup+Query stuffed in plaintext in the same write or right after the reply; SSLRequest twice; CancelRequest first / after the SSL reply / inside TLS; garbage instead of a ClientHello) x auth on/off x a session of 0..10 simple/extended messages whose query texts, row values, parameters, error texts and password carry a marker string; oracle = raw wire tap is 'S' + TLS records only, no marker in either raw direction, decrypted transcript and callback trace equal the plaintext run of the same session, stuffed plaintext never reaches a callback, 'N' + unchanged plaintext session without certificates; non-trivial = queries executed over TLS, stuffed plaintext, or a cancel after negotiation; distinct = distinct canonical JSON")
}

func genCase(t *rapid.T) Case {
	c := Case{}
	c.TLS = rapid.SampledFrom([]string{"", "empty", "cert", "cert", "cert13", "cert13"}).Draw(t, "tls")
	c.Client = rapid.SampledFrom([]string{"plain", "ssl", "ssl", "ssl", "ssl-stuffed-same", "ssl-stuffed-after", "ssl-twice", "ssl-inside-tls", "gss-inside-tls", "cancel-first", "cancel-after-ssl", "cancel-in-tls", "garbage-hello", "ssl-idle", "ssl-idle"}).Draw(t, "client")
	c.Auth = rapid.Bool().Draw(t, "auth")
	c.ViaFields = rapid.IntRange(0, 3).Draw(t, "via-fields") == 0
	c.BadPass = c.Auth && rapid.IntRange(0, 3).Draw(t, "wrong-password") == 0
	switch rapid.IntRange(0, 5).Draw(t, "limit-kind") {
	case 0:
		c.Limit = rapid.SampledFrom([]int{256, 1000, 4096}).Draw(t, "limit")
		c.BigQuery = rapid.SampledFrom([]int{c.Limit - 1, c.Limit, c.Limit + 1, 2 * c.Limit, 16384, 16385}).Draw(t, "big-query")
	case 1:
		c.Limit = 3 << 20
		c.BigQuery = rapid.SampledFrom([]int{16385, 1<<20 - 1, 1<<20 + 1, 2 << 20}).Draw(t, "big-query")
	case 2:
		c.BigQuery = rapid.SampledFrom([]int{16383, 16384, 16385, 20000}).Draw(t, "big-query")
	}
	n := rapid.IntRange(0, 10).Draw(t, "nmsgs")
	for i := 0; i < n; i++ {
		switch rapid.IntRange(0, 4).Draw(t, "msg") {
		case 0, 1:
			c.Msgs = append(c.Msgs, script.CMsg{K: "Q", Query: marker + "-QUERY-" + rapid.SampledFrom([]string{"a", "b", "fail"}).Draw(t, "q")})
		case 2:
			v := []byte(marker + "-PARAM")
			c.Msgs = append(c.Msgs, script.CMsg{K: "P", Name: "s", Query: marker + "-QUERY-p"}, script.CMsg{K: "B", Name: "s", Params: []*[]byte{&v}, RFmts: []int16{int16(rapid.IntRange(0, 1).Draw(t, "fmt"))}}, script.CMsg{K: "D", Kind: 'P'}, script.CMsg{K: "E"}, script.CMsg{K: "S"})
		case 3:
			c.Msgs = append(c.Msgs, script.CMsg{K: "E", Portal: "nope"}, script.CMsg{K: "S"})
		default:
			c.Msgs = append(c.Msgs, script.CMsg{K: "S"})
		}
	}
	if c.Client == "ssl-idle" {
		c.BigQuery = 0
		for i := -1; i < len(c.Msgs); i++ {
			if rapid.IntRange(0, 2).Draw(t, "idle-here") == 0 {
				c.IdleAt = append(c.IdleAt, i)
			}
		}
	}
	return c
}

func TestProp(t *testing.T) {
	core.RunProp(t, "main", core.Scale(400), genCase, Run)
}

func TestReplay(t *testing.T) {
	core.Replay(t, map[string]func(Case) core.Result{"main": Run})
}
