// Package c11: TLS upgrade - everything after 'S' is encrypted, nothing
// before it is trusted.
package c11

import (
	"bytes"
	"crypto/tls"
	"fmt"
	"sync"
	"time"

	"verif/harness/core"
	"verif/harness/memnet"
	"verif/harness/pgwire"
	"verif/harness/script"
)

type Case struct {
	TLS      string        `json:"tls"`    // "" | empty | cert | cert13
	Client   string        `json:"client"` // plain | ssl | ssl-stuffed-same | ssl-stuffed-after | ssl-twice | cancel-first | cancel-after-ssl | cancel-in-tls | garbage-hello
	Auth     bool          `json:"auth,omitempty"`
	Msgs     []script.CMsg `json:"msgs,omitempty"`
	BindVals []string      `json:"-"`
	Limit    int           `json:"limit,omitempty"` // message size limit (0 = 16 KiB)
	// BigQuery > 0: a query of that many bytes is part of the session (sizes around the limit,
	// the TLS record size and 1 MiB): the limit is about messages, whatever the transport
	BigQuery int `json:"big_query,omitempty"`
	// IdleAt (client "ssl-idle"): a long time passes before message i (-1 = before the start-up packet)
	IdleAt []int `json:"idle_at,omitempty"`
	// BadPass (with Auth): the client sends a wrong password; the rejection (what is reported, that the
	// connection ends, that nothing of the session is served) looks the same inside TLS as in plaintext
	BadPass bool `json:"bad_pass,omitempty"`
	// ViaFields: Server.TLSConfig / Server.Auth assigned after NewServer instead of passed as options
	ViaFields bool `json:"via_fields,omitempty"`
}

const marker = "MARKER"

func table() script.Table {
	rows := script.Stmt{Cols: []script.Col{{Name: "secret_col", T: "text"}, {Name: "n", T: "int4"}}, Ops: []script.Op{
		{K: "row", Vals: []script.Val{{T: "text", S: marker + "-ROW-1"}, {T: "int4", I: 1}}},
		{K: "row", Vals: []script.Val{{T: "text", S: marker + "-ROW-2"}, {T: "int4", Null: "nil"}}},
		{K: "complete", Tag: "SELECT 2"}}}
	fail := script.Stmt{Ops: []script.Op{{K: "ret", Err: &script.ErrSpec{Base: marker + "-ERROR-TEXT"}}}}
	def := script.Outcome{Stmts: []script.Stmt{rows}}
	return script.Table{Q: map[string]script.Outcome{marker + "-QUERY-fail": {Stmts: []script.Stmt{fail}}, marker + "-STUFFED-QUERY": {Stmts: []script.Stmt{rows}}}, Def: &def}
}

func (c Case) config() script.Config {
	lim := c.Limit
	if lim == 0 {
		lim = 1 << 14
	}
	cfg := script.Config{TLS: c.TLS, Table: table(), SetLimit: true, Limit: lim, ViaFields: c.ViaFields}
	if c.Auth {
		cfg.Auth = &script.AuthSpec{User: "tls-user", Pass: marker + "-PASSWORD"}
	}
	return cfg
}

func (c Case) startup() []byte {
	b := pgwire.Startup([][2]string{{"user", "tls-user"}, {"database", "db"}})
	if c.Auth && c.BadPass {
		b = append(b, pgwire.Password(marker+"-NOT-THE-PASSWORD")...)
	} else if c.Auth {
		b = append(b, pgwire.Password(marker+"-PASSWORD")...)
	}
	return b
}

func (c Case) session() []byte {
	var b []byte
	for i, m := range c.Msgs {
		b = append(b, m.Bytes()...)
		if i == 0 && c.BigQuery > 0 {
			q := make([]byte, c.BigQuery-1)
			for j := range q {
				q[j] = byte('a' + j%26)
			}
			copy(q, "select big ")
			b = append(b, pgwire.Query(string(q))...)
		}
	}
	if len(c.Msgs) == 0 && c.BigQuery > 0 {
		b = append(b, pgwire.Query(string(make([]byte, c.BigQuery-1)))...)
	}
	return b
}

type result struct {
	plain  []byte // protocol bytes as seen by the client (decrypted when TLS)
	rawOut []byte
	rawIn  []byte
	trace  []string
	closed bool
	inc    string
	hsErr  error
	panics []script.PanicRec
}

func norm(tr []script.Event) []string {
	var out []string
	for _, ev := range tr {
		ev.At, ev.Conn, ev.Out0, ev.Out1 = 0, 0, 0, 0
		if ev.Ctx != nil {
			x := *ev.Ctx
			x.Remote = ""
			ev.Ctx = &x
		}
		b, _ := core.MarshalCase(ev)
		out = append(out, string(b))
	}
	return out
}

// runPlain: the session on a plaintext connection (optionally behind a refused SSLRequest).
func runPlain(c Case, prefix []byte) result {
	var r result
	env := script.Start(c.config())
	defer env.Stop()
	conn := env.Dial()
	conn.Send(append(append(append([]byte{}, prefix...), c.startup()...), c.session()...))
	conn.CloseWrite()
	if conn.WaitIdle(script.Guard) == memnet.Timeout {
		r.inc = "plaintext run: guard"
		return r
	}
	r.rawOut, r.rawIn = conn.Output(), conn.Input()
	r.plain = r.rawOut
	r.trace = norm(env.Trace())
	r.closed, _ = conn.ServerClosed()
	r.panics = env.Panics()
	return r
}

// runTLS: SSLRequest, optional stuffed plaintext, TLS handshake, then the session inside TLS.
func runTLS(c Case, stuffedSame, stuffedAfter, hello []byte, inTLS []byte) result {
	var r result
	env := script.Start(c.config())
	defer env.Stop()
	conn := env.Dial()
	conn.Send(append(pgwire.SSLRequest(), stuffedSame...))
	if !conn.WaitOutput(1, script.Guard) {
		r.rawOut = conn.Output()
		r.closed, _ = conn.ServerClosed()
		if !r.closed {
			r.inc = "no reply to SSLRequest within the guard"
		}
		r.trace = norm(env.Trace())
		return r
	}
	if len(stuffedAfter) > 0 {
		conn.Send(stuffedAfter)
	}
	if hello != nil {
		conn.Send(hello)
		conn.CloseWrite()
		conn.WaitIdle(script.Guard)
		r.rawOut, r.rawIn = conn.Output(), conn.Input()
		r.trace = norm(env.Trace())
		r.closed, _ = conn.ServerClosed()
		r.panics = env.Panics()
		return r
	}
	// consume the 'S' on the client side, then run the TLS client on the rest
	ce := conn.ClientEnd()
	one := make([]byte, 1)
	if _, err := ce.Read(one); err != nil {
		r.inc = "cannot read the SSL reply"
		return r
	}
	if one[0] != 'S' {
		r.rawOut = conn.Output()
		r.trace = norm(env.Trace())
		return r
	}
	tc := tls.Client(ce, &tls.Config{InsecureSkipVerify: true, MinVersion: tls.VersionTLS12})
	hs := make(chan error, 1)
	go func() { hs <- tc.Handshake() }()
	select {
	case r.hsErr = <-hs:
	case <-time.After(script.Guard):
		r.inc = "TLS handshake: guard"
		conn.CloseWrite()
		return r
	}
	var mu sync.Mutex
	readerDone := make(chan struct{})
	if r.hsErr == nil {
		go func() {
			defer close(readerDone)
			buf := make([]byte, 8192)
			for {
				n, err := tc.Read(buf)
				mu.Lock()
				r.plain = append(r.plain, buf[:n]...)
				mu.Unlock()
				if err != nil {
					return
				}
			}
		}()
		if _, err := tc.Write(inTLS); err == nil {
			_ = tc.CloseWrite()
		}
		conn.CloseWrite()
		if conn.WaitIdle(script.Guard) == memnet.Timeout {
			r.inc = "TLS session: guard"
			return r
		}
		conn.WaitClientDrained(script.Guard)
		select {
		case <-readerDone:
		case <-time.After(script.Guard):
			r.inc = "TLS reader: guard"
			return r
		}
	} else {
		conn.CloseWrite()
		conn.WaitIdle(script.Guard)
	}
	mu.Lock()
	defer mu.Unlock()
	r.rawOut, r.rawIn = conn.Output(), conn.Input()
	r.trace = norm(env.Trace())
	r.closed, _ = conn.ServerClosed()
	r.panics = env.Panics()
	return r
}

func protoReply(b []byte) bool {
	// does b look like a plaintext protocol reply (R/E/S/Z frame)?
	m, _, err := pgwire.ParseOne(b)
	return err == nil && (m.Type == 'R' || m.Type == 'E' || m.Type == 'Z' || m.Type == 'S')
}

func Run(c Case) core.Result {
	res := core.Result{}
	res.Labels = append(res.Labels, "tls="+c.TLS, "client="+c.Client)
	if c.Auth && c.BadPass {
		res.Labels = append(res.Labels, "wrong-password")
	}
	certs := c.TLS == "cert" || c.TLS == "cert13"
	stuffed := append(pgwire.Startup([][2]string{{"user", "stuffed-user"}, {"database", "db"}}), pgwire.Query(marker+"-STUFFED-QUERY")...)
	noCallback := func(tr []string, what string) string {
		for _, e := range tr {
			return fmt.Sprintf("%s: callback ran: %s", what, e)
		}
		return ""
	}
	switch c.Client {
	case "ssl-idle":
		if certs {
			return runIdleCase(c, res)
		}
		c.Client = "ssl"
	}
	switch c.Client {
	case "plain":
		r := runPlain(c, nil)
		if r.inc != "" {
			res.Inconclusive = r.inc
			return res
		}
		if _, _, err := pgwire.ParseStream(r.plain); err != nil {
			return core.Fail("C11/plain/grammar", "%v", err)
		}
		return res
	case "cancel-first", "cancel-after-ssl":
		env := script.Start(c.config())
		defer env.Stop()
		conn := env.Dial()
		b := pgwire.CancelRequest(1, 2)
		want := ""
		if c.Client == "cancel-after-ssl" {
			b = append(pgwire.SSLRequest(), b...)
			want = "N"
			if certs {
				want = "S"
			}
		}
		conn.Send(b)
		conn.CloseWrite()
		if conn.WaitIdle(script.Guard) == memnet.Timeout {
			res.Inconclusive = "cancel: guard"
			return res
		}
		out := conn.Output()
		if want == "S" {
			// the cancel packet is then plaintext in front of a TLS handshake: the handshake fails; only TLS alerts may follow 'S'
			if len(out) == 0 || out[0] != 'S' {
				return core.Fail("C11/cancel/reply", "SSLRequest with certificates answered %q", out)
			}
			if _, err := pgwire.ScanTLSRecords(out[1:]); err != nil {
				return core.Fail("C11/cancel/plaintext-after-S", "bytes after 'S' are not TLS records: %v", err)
			}
		} else if string(out) != want {
			return core.Fail("C11/cancel/reply", "CancelRequest (%s) answered with %q, want %q", c.Client, out, want)
		}
		if d := noCallback(norm(env.Trace()), "CancelRequest"); d != "" {
			return core.Fail("C11/cancel/callback", "%s", d)
		}
		if cl, _ := conn.ServerClosed(); !cl {
			return core.Fail("C11/cancel/not-closed", "connection not closed after CancelRequest")
		}
		res.NonTrivial = c.Client == "cancel-after-ssl"
		return res
	}
	if !certs {
		// SSLRequest is refused with 'N'; the same connection continues in plaintext
		with := runPlain(c, pgwire.SSLRequest())
		without := runPlain(c, nil)
		if with.inc != "" || without.inc != "" {
			res.Inconclusive = with.inc + without.inc
			return res
		}
		if len(with.rawOut) == 0 || with.rawOut[0] != 'N' {
			return core.Fail("C11/refusal/reply", "SSLRequest without certificates (config %q) answered %q, want 'N'", c.TLS, clip(with.rawOut))
		}
		if !bytes.Equal(canonBytes(with.rawOut[1:]), canonBytes(without.rawOut)) {
			return core.Fail("C11/refusal/session-differs", "after 'N' the plaintext session differs from a session without SSLRequest:\n%v\nvs\n%v", briefs(with.rawOut[1:]), briefs(without.rawOut))
		}
		if d := diff(with.trace, without.trace); d != "" {
			return core.Fail("C11/refusal/trace-differs", "%s", d)
		}
		return res
	}
	// certificates configured
	var r result
	inTLS := append(c.startup(), c.session()...)
	switch c.Client {
	case "ssl":
		r = runTLS(c, nil, nil, nil, inTLS)
	case "ssl-stuffed-same":
		r = runTLS(c, stuffed, nil, nil, inTLS)
	case "ssl-stuffed-after":
		r = runTLS(c, nil, stuffed, nil, inTLS)
	case "ssl-twice":
		r = runTLS(c, pgwire.SSLRequest(), nil, nil, inTLS)
	case "ssl-inside-tls":
		r = runTLS(c, nil, nil, nil, append(pgwire.SSLRequest(), inTLS...))
	case "gss-inside-tls":
		r = runTLS(c, nil, nil, nil, append(pgwire.Untyped(pgwire.CodeGSS, nil), inTLS...))
	case "cancel-in-tls":
		r = runTLS(c, nil, nil, nil, pgwire.CancelRequest(7, 7))
	case "garbage-hello":
		r = runTLS(c, nil, nil, append([]byte("\x16\x03\x01\x00\x05hello"), stuffed...), nil)
	}
	if r.inc != "" {
		res.Inconclusive = r.inc
		return res
	}
	if len(r.panics) > 0 {
		return core.Fail("C11/panic", "%s", r.panics[0].Value)
	}
	if len(r.rawOut) == 0 || r.rawOut[0] != 'S' {
		return core.Fail("C11/ssl-reply", "SSLRequest with certificates answered %q, want the single byte 'S'", clip(r.rawOut))
	}
	// everything after 'S' travels inside TLS
	if _, err := pgwire.ScanTLSRecords(r.rawOut[1:]); err != nil {
		what := "server bytes after 'S' are not TLS records"
		if protoReply(r.rawOut[1:]) {
			what = "the server sent a plaintext protocol message after 'S'"
		}
		return core.Fail("C11/plaintext-after-S", "%s: %v", what, err)
	}
	if i := bytes.Index(r.rawOut, []byte(marker)); i >= 0 {
		return core.Fail("C11/secret-on-wire/server", "plaintext %q visible in the raw server->client bytes at offset %d", clip(r.rawOut[i:]), i)
	}
	tlsIn := r.rawIn[8:]
	if c.Client == "ssl-stuffed-same" || c.Client == "ssl-stuffed-after" || c.Client == "garbage-hello" {
		tlsIn = bytes.ReplaceAll(tlsIn, stuffed, nil) // the stuffed plaintext is the client's own doing
	}
	if i := bytes.Index(tlsIn, []byte(marker)); i >= 0 && r.hsErr == nil {
		return core.Fail("C11/secret-on-wire/client", "harness error or TLS not in effect: plaintext %q in the raw client->server bytes", clip(tlsIn[i:]))
	}
	// stuffed plaintext is never interpreted
	for _, e := range r.trace {
		if bytes.Contains([]byte(e), []byte("STUFFED")) || bytes.Contains([]byte(e), []byte("stuffed-user")) {
			return core.Fail("C11/stuffed-plaintext-interpreted", "plaintext pushed ahead of the TLS handshake reached a callback: %s", e)
		}
	}
	switch c.Client {
	case "cancel-in-tls":
		if len(r.plain) != 0 {
			return core.Fail("C11/cancel-in-tls/reply", "CancelRequest inside TLS answered with %q", clip(r.plain))
		}
		if d := noCallback(r.trace, "CancelRequest inside TLS"); d != "" {
			return core.Fail("C11/cancel-in-tls/callback", "%s", d)
		}
		if !r.closed {
			return core.Fail("C11/cancel-in-tls/not-closed", "connection not closed")
		}
		res.NonTrivial = true
		return res
	case "garbage-hello":
		if d := noCallback(r.trace, "garbage instead of a ClientHello"); d != "" {
			return core.Fail("C11/garbage/callback", "%s", d)
		}
		if !r.closed {
			return core.Fail("C11/garbage/not-closed", "connection not closed after a failed handshake")
		}
		return res
	}
	if r.hsErr != nil {
		// allowed for stuffed plaintext sent after the reply / a second SSLRequest: the handshake fails, the connection closes
		if c.Client == "ssl" {
			return core.Fail("C11/handshake", "TLS handshake failed on a clean upgrade: %v", r.hsErr)
		}
		if d := noCallback(r.trace, "failed handshake"); d != "" {
			return core.Fail("C11/failed-handshake/callback", "%s", d)
		}
		res.Labels = append(res.Labels, "handshake-failed(allowed)")
		res.NonTrivial = true
		return res
	}
	if c.Client == "ssl-inside-tls" || c.Client == "gss-inside-tls" {
		res.NonTrivial = true
		return res
	}
	// the TLS session behaves exactly like its plaintext equivalent
	ref := runPlain(c, nil)
	if ref.inc != "" {
		res.Inconclusive = ref.inc
		return res
	}
	if !bytes.Equal(canonBytes(r.plain), canonBytes(ref.rawOut)) {
		return core.Fail("C11/tls-vs-plaintext/transcript", "the session inside TLS differs from the same session in plaintext:\nTLS:       %v\nplaintext: %v", briefs(r.plain), briefs(ref.rawOut))
	}
	if d := diff(r.trace, ref.trace); d != "" {
		return core.Fail("C11/tls-vs-plaintext/trace", "%s", d)
	}
	res.NonTrivial = len(c.Msgs) > 0 || c.Client != "ssl"
	return res
}

func canonBytes(b []byte) []byte {
	msgs, off, err := pgwire.ParseStream(b)
	var out []byte
	for _, s := range pgwire.Canon(msgs) {
		out = append(out, s...)
	}
	if err != nil {
		out = append(out, b[off:]...)
	}
	return out
}

func briefs(b []byte) []string {
	msgs, _, _ := pgwire.ParseStream(b)
	return pgwire.Briefs(msgs)
}

func clip(b []byte) []byte {
	if len(b) > 60 {
		return b[:60]
	}
	return b
}

func diff(a, b []string) string {
	for i := 0; i < len(a) && i < len(b); i++ {
		if a[i] != b[i] {
			return fmt.Sprintf("callback event %d differs: %s vs %s", i, a[i], b[i])
		}
	}
	if len(a) != len(b) {
		return fmt.Sprintf("%d callback events vs %d", len(a), len(b))
	}
	return ""
}
