// Package c05: Simple Query - ordered results, then exactly one ReadyForQuery;
// the result writer behaves as a small state machine.
package c05

import (
	"verif/harness/core"
	"verif/harness/model"
	"verif/harness/play"
)

type Case = play.History

func Run(c Case) core.Result {
	res := core.Result{}
	multi, errAfterRows, failedRow, afterDone, blank, perr, zero := false, false, false, false, false, false, false
	srvClose := false
	for _, m := range c.Msgs {
		if model.IsBlank(m.Query) {
			blank = true
			continue
		}
		o, ok := c.Cfg.Table.Lookup(m.Query)
		if !ok {
			continue
		}
		if o.Err != nil {
			perr = true
		} else if len(o.Stmts) == 0 {
			zero = true
		}
		if len(o.Stmts) >= 2 {
			multi = true
		}
		for _, st := range o.Stmts {
			rows, done := 0, false
			for _, op := range st.Ops {
				switch op.K {
				case "closesrv":
					srvClose = true
				case "row":
					bad := len(op.Vals) != len(st.Cols)
					for _, v := range op.Vals {
						bad = bad || v.Bad
					}
					if done {
						afterDone = true
					} else if bad {
						failedRow = true
					} else {
						rows++
					}
				case "complete", "empty":
					if done {
						afterDone = true
					}
					if op.K == "complete" || rows == 0 {
						done = true
					}
				case "ret":
					if op.Err != nil && rows > 0 {
						errAfterRows = true
					}
				}
			}
		}
	}
	add := func(b bool, l string) {
		if b {
			res.Labels = append(res.Labels, l)
		}
	}
	add(multi, "multi-statement")
	add(errAfterRows, "error-after-rows")
	add(failedRow, "failed-row")
	add(afterDone, "op-after-completion")
	add(blank, "blank-query")
	add(perr, "parser-error")
	add(zero, "zero-statements")
	add(c.TLS, "inside-tls")
	add(srvClose, "server-close-during-query")
	res.NonTrivial = multi || errAfterRows || failedRow || afterDone

	o := play.Run(c, play.Options{Prefix: "C05"})
	res.Inconclusive = o.Inconclusive
	if o.Violation != "" {
		res.Sig, res.Violation = o.Sig, o.Violation
		res.Detail = map[string]any{"transcript": o.Transcript}
		return res
	}
	// cycle discipline over the whole history: exactly one Z per Query
	if o.Inconclusive == "" && o.ZCount != len(c.Msgs) {
		return core.Result{Sig: "C05/zcount", Violation: "number of ReadyForQuery differs from number of Query messages", Labels: res.Labels}
	}
	return res
}
