package c05

import (
	"testing"

	"pgregory.net/rapid"

	"verif/harness/core"
	"verif/harness/gen"
	"verif/harness/script"
)

func TestMain(m *testing.M) {
	core.Main(m, "C05", "cases = handler table (query text -> parser error | 0 | 1 | 2..5 statements; statement = 0..6 columns + up to 10 result-writer operations incl. wrong-arity/unencodable rows, Written() probes, Empty, Complete, operations after completion, early returns with/without error) x 1..8 Query messages (table keys and blank queries), each sent alone and compared with the reference model; non-trivial = a query with >= 2 statements, or an error after >= 1 row, or a failed row, or an operation after completion; distinct = distinct canonical JSON")
}

var blanks = []string{"", " ", "\t", "\n", " \t\n ", "\r\n", "   ", "\f", " \f\n", "\n\f\n"} // (space, tab, newline, carriage return, form feed: blank for the SQL lexer and for Go alike)

func genCase(t *rapid.T) Case {
	c := Case{}
	nq := rapid.IntRange(1, 4).Draw(t, "nqueries")
	c.Cfg.Table.Q = map[string]script.Outcome{}
	if rapid.IntRange(0, 19).Draw(t, "default-limit?") != 0 {
		c.Cfg.SetLimit, c.Cfg.Limit = true, 1<<16 // the 16 MiB default buffer makes a case ~20x slower
	}
	keys := gen.QueryNames[:nq]
	for _, k := range keys {
		c.Cfg.Table.Q[k] = gen.Outcome(gen.SimpleTypes, 5, 6, 10).Draw(t, "outcome")
	}
	c.TLS = rapid.IntRange(0, 7).Draw(t, "inside-tls") == 3
	c.Cfg.OptSeed = rapid.IntRange(0, 1000).Draw(t, "option-order")
	n := rapid.IntRange(1, 8).Draw(t, "nmsgs")
	for i := 0; i < n; i++ {
		if rapid.IntRange(0, 6).Draw(t, "blank?") == 0 {
			c.Msgs = append(c.Msgs, script.CMsg{K: "Q", Query: rapid.SampledFrom(blanks).Draw(t, "blank")})
		} else {
			c.Msgs = append(c.Msgs, script.CMsg{K: "Q", Query: rapid.SampledFrom(keys).Draw(t, "query")})
		}
	}
	if rapid.IntRange(0, 7).Draw(t, "server-close-during-last-query") == 0 {
		// the last Query has 2..5 statements; one of them calls Server.Close somewhere between its
		// operations: the admitted command still delivers the results of all its statements
		k := gen.QueryNames[nq]
		o := script.Outcome{Stmts: rapid.SliceOfN(gen.Stmt(gen.SimpleTypes, 5, 6, true), 2, 5).Draw(t, "closing-stmts")}
		si := rapid.IntRange(0, len(o.Stmts)-1).Draw(t, "closing-stmt")
		ops := o.Stmts[si].Ops
		at := rapid.IntRange(0, len(ops)).Draw(t, "closing-op")
		ops = append(ops[:at:at], append([]script.Op{{K: "closesrv"}}, ops[at:]...)...)
		o.Stmts[si].Ops = ops
		c.Cfg.Table.Q[k] = o
		c.Msgs = append(c.Msgs, script.CMsg{K: "Q", Query: k})
	}
	return c
}

func TestProp(t *testing.T) {
	core.RunProp(t, "main", core.Scale(2500), genCase, Run)
}

func TestReplay(t *testing.T) {
	core.Replay(t, map[string]func(Case) core.Result{"main": Run})
}

// FuzzGen: coverage-guided search over the same generated cases (thorough tier).
func FuzzGen(f *testing.F) {
	core.FuzzProp(f, "main", genCase, Run)
}
