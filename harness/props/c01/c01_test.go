package c01

import (
	"testing"

	"pgregory.net/rapid"

	"verif/harness/core"
	"verif/harness/gen"
	"verif/harness/script"
)

func TestMain(m *testing.M) {
	core.Main(m, "C01", "cases = server with ClearTextPassword(validator accepting exactly one (user,password), failing on one password, rejecting the rest), 0..3 middlewares; client startup with generated user/database, then in place of the password message: well-formed 'p' (accepted / one-byte-off / empty / long / failing password), 'p' without NUL, length word 0..3 or beyond the limit, another message type carrying a password-looking body, a truncated message then EOF, or EOF; then 0..6 continuation messages (queries, Parse/Bind/Execute/Sync, Terminate, garbage) pipelined in the same write or sent afterwards; non-trivial = a non-accepting case whose continuation contains a message that would invoke a callback on an authenticated session; distinct = distinct canonical JSON")
}

func genCase(t *rapid.T) Case {
	c := Case{Limit: rapid.SampledFrom([]int{64, 256, 4096, 1 << 16}).Draw(t, "limit")}
	c.Auth = script.AuthSpec{User: rapid.SampledFrom([]string{"alice", "", "bob", "é"}).Draw(t, "auth-user"), Pass: rapid.SampledFrom([]string{"secret", "", "pässword", "p w"}).Draw(t, "auth-pass"), FailPass: "boom", PanicPass: "kaboom", FailErr: gen.SmallErr().Draw(t, "fail-err")}
	c.Auth.FailTrue = rapid.Bool().Draw(t, "validator-fails-with-true")
	c.Auth.NilCtx = rapid.IntRange(0, 2).Draw(t, "validator-returns-nil-context") == 0
	c.Neighbour = rapid.SampledFrom([]string{"", "", "", "before", "between", "between"}).Draw(t, "neighbour")
	c.ViaFields = rapid.IntRange(0, 3).Draw(t, "via-fields") == 0
	c.NMW = rapid.IntRange(0, 3).Draw(t, "nmw")
	c.OptSeed = rapid.IntRange(0, 1000).Draw(t, "option-order")
	c.Term = rapid.Bool().Draw(t, "term")
	c.DB = rapid.SampledFrom([]string{"db", "", "postgres"}).Draw(t, "db")
	c.User = c.Auth.User
	switch rapid.IntRange(0, 5).Draw(t, "user-kind") {
	case 0:
		c.User = rapid.SampledFrom([]string{"mallory", "", "Alice", "alice ", "alic"}).Draw(t, "other-user")
	case 1:
		c.NoUser = true
	}
	c.PwKind = rapid.SampledFrom([]string{"ok", "ok", "ok", "ok", "no-nul", "short-len", "oversize", "wrong-type", "truncated", "eof"}).Draw(t, "pw-kind")
	good := c.Auth.Pass
	switch rapid.IntRange(0, 7).Draw(t, "password") {
	case 0, 1, 2:
		c.Password = good
	case 3:
		c.Password = good + " "
	case 4:
		if len(good) > 0 {
			c.Password = good[:len(good)-1]
		} else {
			c.Password = "x"
		}
	case 5:
		c.Password = rapid.SampledFrom([]string{"boom", "kaboom"}).Draw(t, "failing-password")
	case 6:
		c.Password = ""
	default:
		c.Password = rapid.StringMatching(`[a-zA-Z]{1,40}`).Draw(t, "pw")
	}
	switch c.PwKind {
	case "short-len":
		c.LenWord = uint32(rapid.IntRange(0, 3).Draw(t, "len-word"))
	case "oversize":
		c.LenWord = uint32(c.Limit + 4 + rapid.SampledFrom([]int{1, 2, 100, 1 << 20, 1<<31 - 1 - c.Limit - 4}).Draw(t, "over"))
	case "wrong-type":
		c.WrongType = rapid.SampledFrom([]byte{'Q', 'P', 'S', 'X', 'Y', 'R', 0}).Draw(t, "wrong-type")
	case "truncated":
		c.Cut = rapid.IntRange(0, 5+len(c.Password)).Draw(t, "cut")
	}
	if c.PwKind != "truncated" && c.PwKind != "eof" {
		n := rapid.IntRange(0, 6).Draw(t, "ncont")
		accept := c.verdict() == "accept"
		for i := 0; i < n; i++ {
			k := rapid.IntRange(0, 9).Draw(t, "cont")
			switch {
			case k <= 3:
				c.Cont = append(c.Cont, script.CMsg{K: "Q", Query: rapid.SampledFrom([]string{"select 1", "delete"}).Draw(t, "query")})
			case k <= 5:
				c.Cont = append(c.Cont, script.CMsg{K: "P", Query: "select 1"}, script.CMsg{K: "B"}, script.CMsg{K: "E"}, script.CMsg{K: "S"})
			case k == 6:
				c.Cont = append(c.Cont, script.CMsg{K: "H"})
			case k == 7:
				c.Cont = append(c.Cont, script.CMsg{K: "X"})
				i = n
			case k == 8 && !accept:
				c.Cont = append(c.Cont, script.CMsg{K: "raw", Data: rapid.SliceOfN(rapid.Byte(), 1, 30).Draw(t, "garbage")})
			default:
				c.Cont = append(c.Cont, script.CMsg{K: "p", Data: nil})
				c.Cont[len(c.Cont)-1] = script.CMsg{K: "raw", Data: append([]byte{'p', 0, 0, 0, byte(5 + len(good))}, append([]byte(good), 0)...)}
				if accept {
					c.Cont = c.Cont[:len(c.Cont)-1]
				}
			}
		}
		c.Pipelined = rapid.Bool().Draw(t, "pipelined")
	}
	c.TLS = c.PwKind != "truncated" && c.PwKind != "eof" && rapid.IntRange(0, 5).Draw(t, "inside-tls") == 3
	if rapid.IntRange(0, 3).Draw(t, "segmented?") == 0 {
		c.Segs = gen.Segments().Draw(t, "segs")
	}
	return c
}

func TestProp(t *testing.T) {
	core.RunProp(t, "main", core.Scale(2500), genCase, Run)
}

func TestReplay(t *testing.T) {
	core.Replay(t, map[string]func(Case) core.Result{"main": Run})
}

// FuzzGen: coverage-guided search over the same generated cases (thorough tier).
func FuzzGen(f *testing.F) {
	core.FuzzProp(f, "main", genCase, Run)
}
