// Package c01: rejected credentials never yield a session.
package c01

import (
	"fmt"

	"verif/harness/core"
	"verif/harness/memnet"
	"verif/harness/model"
	"verif/harness/pgwire"
	"verif/harness/script"
)

type Case struct {
	Auth      script.AuthSpec `json:"auth"`
	NMW       int             `json:"nmw"`
	Term      bool            `json:"term,omitempty"`
	Limit     int             `json:"limit"`
	User      string          `json:"user"`
	DB        string          `json:"db"`
	NoUser    bool            `json:"no_user,omitempty"`
	PwKind    string          `json:"pw_kind"` // ok | no-nul | short-len | oversize | wrong-type | truncated | eof
	Password  string          `json:"password"`
	WrongType byte            `json:"wrong_type,omitempty"`
	LenWord   uint32          `json:"len_word,omitempty"`
	Cut       int             `json:"cut,omitempty"` // truncated: bytes of the password message that are sent
	Cont      []script.CMsg   `json:"cont,omitempty"`
	Pipelined bool            `json:"pipelined,omitempty"`
	Segs      []int           `json:"segs,omitempty"`
	TLS       bool            `json:"tls,omitempty"` // authentication happens inside a TLS session
	OptSeed   int             `json:"opt_seed,omitempty"`
	// Neighbour: another client reaches its own password prompt and stays there, "before" this
	// connection's start-up packet or "between" its start-up packet and its password message. It
	// announces the accepted user when this connection does not, and a stranger otherwise: whose
	// credentials are checked must not depend on who else is logging in.
	Neighbour string `json:"neighbour,omitempty"`
	// ViaFields: Server.Auth (and TLSConfig) assigned after NewServer instead of passed as options
	ViaFields bool `json:"via_fields,omitempty"`
}

func (c Case) neighbour(env *script.Env) {
	user := c.Auth.User
	if !c.NoUser && c.User == c.Auth.User {
		user = c.Auth.User + "-stranger"
	}
	n := env.NewSess()
	n.C.Send(pgwire.Startup([][2]string{{"user", user}, {"database", c.DB}}))
	n.C.WaitIdle(script.Guard)
}

func table() script.Table {
	return script.Table{Q: map[string]script.Outcome{
		"select 1": {Stmts: []script.Stmt{{Cols: []script.Col{{Name: "a", T: "int4"}}, Ops: []script.Op{{K: "row", Vals: []script.Val{{T: "int4", I: 1}}}, {K: "complete", Tag: "SELECT 1"}}}}},
		"delete":   {Stmts: []script.Stmt{{Ops: []script.Op{{K: "complete", Tag: "DELETE 3"}}}}},
	}}
}

func (c Case) pwBytes() []byte {
	full := pgwire.Password(c.Password)
	switch c.PwKind {
	case "ok":
		return full
	case "no-nul":
		return pgwire.Msg('p', []byte(c.Password))
	case "short-len", "oversize":
		return pgwire.RawFrame('p', c.LenWord, append([]byte(c.Password), 0))
	case "wrong-type":
		return pgwire.Msg(c.WrongType, append([]byte(c.Password), 0))
	case "truncated":
		cut := c.Cut
		if cut >= len(full) {
			cut = len(full) - 1
		}
		if cut < 0 {
			cut = 0
		}
		return full[:cut]
	}
	return nil // eof
}

func (c Case) verdict() string {
	if c.PwKind != "ok" {
		return "malformed"
	}
	user := c.User
	if c.NoUser {
		user = ""
	}
	return c.Auth.Verdict(user, c.Password)
}

func wouldInvoke(m script.CMsg) bool {
	switch m.K {
	case "Q", "P", "E", "X":
		return true
	}
	return false
}

func Run(c Case) core.Result {
	res := core.Result{}
	v := c.verdict()
	res.Labels = append(res.Labels, "verdict="+v, "pw="+c.PwKind)
	if c.Pipelined {
		res.Labels = append(res.Labels, "pipelined")
	}
	invoking := false
	for _, m := range c.Cont {
		invoking = invoking || wouldInvoke(m)
	}
	if v != "accept" && invoking {
		res.NonTrivial = true
		res.Labels = append(res.Labels, "nonaccept+continuation")
	}

	cfg := script.Config{Auth: &c.Auth, Table: table(), SetLimit: true, Limit: c.Limit, OptSeed: c.OptSeed, ViaFields: c.ViaFields}
	if c.ViaFields {
		res.Labels = append(res.Labels, "configured-through-exported-fields")
	}
	for i := 0; i < c.NMW; i++ {
		cfg.MWs = append(cfg.MWs, script.MW{})
	}
	if c.Term {
		cfg.Term = &script.MW{}
	}
	if c.TLS {
		cfg.TLS = "cert"
		res.Labels = append(res.Labels, "inside-tls")
	}
	env := script.Start(cfg)
	defer env.Stop()
	if c.TLS {
		return runTLS(c, cfg, env, res, v)
	}
	s := env.NewSess()
	if c.Segs != nil {
		s.C.SetSegments(c.Segs, true)
	}
	pairs := [][2]string{{"database", c.DB}}
	if !c.NoUser {
		pairs = append([][2]string{{"user", c.User}}, pairs...)
	}
	first := append(pgwire.Startup(pairs), c.pwBytes()...)
	var cont []byte
	for _, m := range c.Cont {
		cont = append(cont, m.Bytes()...)
	}
	if c.Pipelined {
		first = append(first, cont...)
	}
	switch c.Neighbour {
	case "before":
		c.neighbour(env)
		res.Labels = append(res.Labels, "neighbour-at-prompt")
	case "between":
		n := len(pgwire.Startup(pairs))
		s.C.Send(first[:n])
		first = first[n:]
		if s.C.WaitIdle(script.Guard) == memnet.Timeout {
			res.Inconclusive = "no quiescence after the start-up packet"
			return res
		}
		c.neighbour(env)
		res.Labels = append(res.Labels, "neighbour-at-prompt")
	}
	s.C.Send(first)
	if c.PwKind == "truncated" || c.PwKind == "eof" {
		s.C.CloseWrite()
	}
	st := s.C.WaitIdle(script.Guard)
	if st == memnet.Timeout {
		res.Inconclusive = "no quiescence after the password message"
		return res
	}
	if v != "accept" && st != memnet.Closed {
		res.Sig = "C01/not-closed/" + v
		res.Violation = fmt.Sprintf("credentials not accepted (%s, password message %s) but the server keeps the connection open and waits for more input; server sent %v", v, c.PwKind, briefs(s.C.Output()))
		return res
	}
	if !c.Pipelined {
		s.C.Send(cont)
		if st = s.C.WaitIdle(script.Guard); st == memnet.Timeout {
			res.Inconclusive = "no quiescence after the continuation"
			return res
		}
	}
	out := s.C.Output()
	msgs, _, perr := pgwire.ParseStream(out)
	return evaluate(c, cfg, env, res, v, msgs, perr)
}

// runTLS: the same exchange inside a TLS session (truncated / EOF kinds excluded by the generator).
func runTLS(c Case, cfg script.Config, env *script.Env, res core.Result, v string) core.Result {
	ts, err := env.NewTLSSess()
	if err != nil {
		res.Inconclusive = "TLS negotiation: " + err.Error()
		return res
	}
	pairs := [][2]string{{"database", c.DB}}
	if !c.NoUser {
		pairs = append([][2]string{{"user", c.User}}, pairs...)
	}
	first := append(pgwire.Startup(pairs), c.pwBytes()...)
	var cont []byte
	for _, m := range c.Cont {
		cont = append(cont, m.Bytes()...)
	}
	if c.Pipelined {
		first = append(first, cont...)
	}
	st := ts.Send(first)
	if st.State == memnet.Timeout {
		res.Inconclusive = "no quiescence after the password message (TLS)"
		return res
	}
	if v != "accept" && st.State != memnet.Closed {
		res.Sig = "C01/not-closed/" + v
		res.Violation = fmt.Sprintf("credentials not accepted (%s, password message %s, inside TLS) but the server keeps the connection open; server sent %v", v, c.PwKind, pgwire.Briefs(ts.Msgs))
		return res
	}
	perr := st.Err
	if !c.Pipelined && st.State != memnet.Closed {
		st2 := ts.Send(cont)
		if st2.State == memnet.Timeout {
			res.Inconclusive = "no quiescence after the continuation (TLS)"
			return res
		}
		if perr == nil {
			perr = st2.Err
		}
	}
	return evaluate(c, cfg, env, res, v, ts.Msgs, perr)
}

func evaluate(c Case, cfg script.Config, env *script.Env, res core.Result, v string, msgs []pgwire.BMsg, perr error) core.Result {
	if ps := env.Panics(); len(ps) > 0 && v != "panic" {
		res.Sig, res.Violation = "C01/panic", "connection goroutine panicked: "+ps[0].Value
		return res
	}
	if perr != nil {
		res.Sig, res.Violation = "C01/grammar", perr.Error()
		return res
	}
	tr := env.Trace()
	if v != "accept" {
		for _, m := range msgs {
			if (m.Type == 'R' && m.Auth == 0) || m.Type == 'S' || m.Type == 'Z' {
				res.Sig = "C01/authenticated-phase-reached/" + v
				res.Violation = fmt.Sprintf("credentials not accepted (%s) but the server sent %s: %v", v, m.Brief(), pgwire.Briefs(msgs))
				return res
			}
		}
		nval := 0
		for _, ev := range tr {
			switch ev.K {
			case "validate":
				nval++
			case "mw", "parse", "stmt", "terminate", "op":
				res.Sig = "C01/callback-after-reject/" + v
				res.Violation = fmt.Sprintf("credentials not accepted (%s) but callback %s(%q) ran; server sent %v", v, ev.K, ev.Q, pgwire.Briefs(msgs))
				return res
			}
		}
		if nval > 1 {
			res.Sig, res.Violation = "C01/validator-twice", fmt.Sprintf("validator ran %d times", nval)
			return res
		}
		if v == "malformed" && nval != 0 && c.PwKind != "ok" {
			res.Sig, res.Violation = "C01/validator-on-malformed", fmt.Sprintf("validator ran on a malformed password message (%s)", c.PwKind)
			return res
		}
		if v == "reject" {
			var errs []pgwire.BMsg
			for _, m := range msgs {
				if m.Type == 'E' {
					errs = append(errs, m)
				}
			}
			if len(errs) != 1 {
				res.Sig, res.Violation = "C01/reject-error-count", fmt.Sprintf("wrong password: %d ErrorResponse messages, want 1: %v", len(errs), pgwire.Briefs(msgs))
				return res
			}
			f, _ := errs[0].ErrMap()
			if len(f['C']) != 5 || f['C'][:2] != "28" {
				res.Sig, res.Violation = "C01/reject-sqlstate", fmt.Sprintf("wrong password reported with SQLSTATE %q, want class 28", f['C'])
				return res
			}
		}
		return res
	}
	// accepted: the session must be served - R(3) R(0) S* Z then the continuation per the model
	i := 0
	want := func(ok bool, what string) bool {
		if !ok {
			res.Sig, res.Violation = "C01/accepted/"+what, fmt.Sprintf("accepted credentials: %s; got %v", what, pgwire.Briefs(msgs))
		}
		return ok
	}
	if !want(len(msgs) >= 2 && msgs[0].Type == 'R' && msgs[0].Auth == 3 && msgs[1].Type == 'R' && msgs[1].Auth == 0, "startup must begin with R(3) R(0)") {
		return res
	}
	i = 2
	for i < len(msgs) && msgs[i].Type == 'S' {
		i++
	}
	if !want(i > 2 && i < len(msgs) && msgs[i].Type == 'Z', "ParameterStatus block then ReadyForQuery expected") {
		return res
	}
	i++
	md := model.New(cfg.Table)
	var exp []model.Exp
	for _, m := range c.Cont {
		e, _ := md.Step(m)
		exp = append(exp, e...)
	}
	if d := model.Match(exp, msgs[i:]); d != "" {
		res.Sig, res.Violation = "C01/accepted/continuation", "accepted credentials: "+d
		return res
	}
	nmw := 0
	for _, ev := range tr {
		if ev.K == "mw" {
			nmw++
		}
	}
	if nmw != c.NMW {
		res.Sig, res.Violation = "C01/accepted/middleware", fmt.Sprintf("%d middleware calls, want %d", nmw, c.NMW)
	}
	return res
}

func briefs(out []byte) []string {
	msgs, _, _ := pgwire.ParseStream(out)
	return pgwire.Briefs(msgs)
}
