package c08

import (
	"fmt"

	"verif/harness/core"
	"verif/harness/memnet"
	"verif/harness/pgwire"
	"verif/harness/script"
)

// Foreign: the handler passes a value in a Go type that is foreign to the
// column (the text rendering as a Go string for a non-text column). The
// library may reject the row or encode it; if a DataRow is sent, its field
// must really be in the format the portal announced.
type Foreign struct {
	T      string     `json:"t"`
	Format int16      `json:"format"`
	V      script.Val `json:"v"`
}

func RunForeign(c Foreign) core.Result {
	res := core.Result{NonTrivial: true, Labels: []string{fmt.Sprintf("type=%s format=%d", c.T, c.Format)}}
	text := string(pgwire.Encode(c.T, 0, c.V.Canon()))
	// the statement writes one row whose only value is the Go string `text`
	st := script.Stmt{Cols: []script.Col{{Name: "c", T: c.T}}, Ops: []script.Op{{K: "row", Vals: []script.Val{{T: "text", S: text}}}, {K: "complete", Tag: "SELECT 1"}}}
	cfg := script.Config{SetLimit: true, Limit: 1 << 14}
	cfg.Table.Q = map[string]script.Outcome{"q": {Stmts: []script.Stmt{st}}}
	env := script.Start(cfg)
	defer env.Stop()
	s := env.NewSess()
	if r := s.Startup(script.DefaultPairs("u"), nil); r.State != memnet.Idle {
		res.Inconclusive = "startup"
		return res
	}
	b := append(pgwire.Parse("", "q", nil), pgwire.Bind("", "", nil, nil, []int16{c.Format})...)
	b = append(b, pgwire.Describe('P', "")...)
	b = append(b, pgwire.Execute("", 0)...)
	b = append(b, pgwire.Sync()...)
	r := s.Send(b)
	if r.State == memnet.Timeout {
		res.Inconclusive = "guard"
		return res
	}
	if r.Err != nil {
		return core.Fail("C08/foreign/grammar", "%v", r.Err)
	}
	announced := int16(-1)
	for _, m := range r.Msgs {
		switch m.Type {
		case 'T':
			if len(m.Cols) == 1 {
				announced = m.Cols[0].Format
			}
			if announced != c.Format {
				return core.Fail("C08/foreign/announced", "Bind asked for result format %d, the portal describes format %d", c.Format, announced)
			}
		case 'D':
			if len(m.Fields) != 1 || m.Fields[0].Null {
				return core.Fail("C08/foreign/shape", "unexpected DataRow %s", m.Brief())
			}
			got, err := pgwire.Decode(c.T, c.Format, m.Fields[0].Data)
			if err != nil {
				return core.Fail("C08/foreign/not-in-announced-format", "column type %s, format %d announced (handler passed the Go string %q): the DataRow field %q is not in that format: %v", c.T, c.Format, text, m.Fields[0].Data, err)
			}
			if !pgwire.ValEqual(got, c.V.Canon()) {
				return core.Fail("C08/foreign/value", "column type %s, format %d: field decodes to %s, the handler wrote %q", c.T, c.Format, pgwire.ValString(got), text)
			}
			res.Labels = append(res.Labels, "row-encoded")
		case 'E':
			res.Labels = append(res.Labels, "row-rejected")
		}
	}
	if !script.Ready(r.Msgs) {
		return core.Fail("C08/foreign/no-ready", "no ReadyForQuery: %v", pgwire.Briefs(r.Msgs))
	}
	return res
}
