// Package c08: Bind parameters and format codes reach the handler exactly.
package c08

import (
	"fmt"

	"verif/harness/core"
	"verif/harness/pgwire"
	"verif/harness/play"
	"verif/harness/script"
)

// Param is one generated Bind parameter.
type Param struct {
	Null  bool        `json:"null,omitempty"`
	Typed *script.Val `json:"typed,omitempty"` // rendered by the harness encoder in format Fmt
	Raw   []byte      `json:"raw,omitempty"`   // arbitrary bytes (Typed == nil)
	Fmt   int16       `json:"fmt"`
}

type Case struct {
	Cols     []script.Col   `json:"cols,omitempty"`
	Rows     [][]script.Val `json:"rows,omitempty"`
	Declared []uint32       `json:"declared"`
	Params   []Param        `json:"params,omitempty"`
	Others   [][]Param      `json:"others,omitempty"` // further portals bound (text format) between this Bind and its Execute
	// Names: the checked portal and the first other portal are called Names[0] and Names[1] (a pair of
	// distinct names that are easily taken for one: case, length, hash collisions, ...)
	Names      []string `json:"names,omitempty"`
	NameFamily string   `json:"name_family,omitempty"`
	PShape     string   `json:"pshape"` // none | one | each
	RFmts      []int16  `json:"rfmts,omitempty"`
	Limit      int      `json:"limit"`
	// Bulk: that many further short text parameters follow the generated ones (parameter counts up to
	// the protocol's 65535 without storing them in the case)
	Bulk int `json:"bulk,omitempty"`
	// Twice: the portal is executed twice
	Twice bool `json:"twice,omitempty"`
	// Big: parameter values larger than a page in this portal and in another one (limit raised to 64 KiB)
	Big bool `json:"big,omitempty"`
	TLS   bool `json:"tls,omitempty"`
}

const q = "select $1"

func (c Case) pname() string {
	if len(c.Names) == 2 {
		return c.Names[0]
	}
	return "p"
}

func (c Case) oname(i int) string {
	if len(c.Names) == 2 && i == 0 {
		return c.Names[1]
	}
	return fmt.Sprintf("o%d", i)
}

func (c Case) history() (play.History, []string) {
	st := script.Stmt{Cols: c.Cols, Params: c.Declared}
	if st.Params == nil {
		st.Params = []uint32{}
	}
	scanAs := make([]string, len(c.Params))
	var params []*[]byte
	var pf []int16
	for i, p := range c.Params {
		if p.Typed != nil && p.Typed.T != "json" && p.Typed.T != "jsonb" {
			scanAs[i] = p.Typed.T
		}
		switch {
		case p.Null:
			params = append(params, nil)
		case p.Typed != nil:
			b := pgwire.Encode(p.Typed.T, p.Fmt, p.Typed.Canon())
			params = append(params, &b)
		default:
			b := append([]byte{}, p.Raw...)
			params = append(params, &b)
		}
		pf = append(pf, p.Fmt)
	}
	for i := 0; i < c.Bulk; i++ {
		b := []byte(fmt.Sprintf("b%d", i))
		params = append(params, &b)
		f := int16(0)
		if c.PShape == "one" && len(pf) > 0 {
			f = pf[0]
		}
		pf = append(pf, f)
	}
	st.ScanAs = scanAs
	for _, r := range c.Rows {
		st.Ops = append(st.Ops, script.Op{K: "row", Vals: r})
	}
	st.Ops = append(st.Ops, script.Op{K: "complete", Tag: "SELECT"})
	var pfmts []int16
	switch c.PShape {
	case "one":
		if len(pf) > 0 {
			pfmts = []int16{pf[0]}
		} else {
			pfmts = []int16{0}
		}
	case "each":
		pfmts = pf
	}
	h := play.History{}
	h.Cfg.Table.Q = map[string]script.Outcome{q: {Stmts: []script.Stmt{st}}}
	h.Cfg.SetLimit, h.Cfg.Limit = true, c.Limit
	if c.Bulk > 0 && h.Cfg.Limit < 1<<20 {
		h.Cfg.Limit = 1 << 20
	}
	if c.Big && h.Cfg.Limit < 1<<16 {
		h.Cfg.Limit = 1 << 16
	}
	h.TLS = c.TLS
	h.Msgs = []script.CMsg{
		{K: "P", Name: "s", Query: q},
		{K: "D", Kind: 'S', Name: "s"},
		{K: "B", Portal: c.pname(), Name: "s", PFmts: pfmts, Params: params, RFmts: c.RFmts},
	}
	// other portals on the same statement, bound after "p" and before "p" is executed: each
	// Execute must still deliver the parameters of its own Bind
	for i, ps := range c.Others {
		var vals []*[]byte
		var fm []int16
		for _, p := range ps {
			fm = append(fm, p.Fmt)
			switch {
			case p.Null:
				vals = append(vals, nil)
			case p.Typed != nil:
				b := pgwire.Encode(p.Typed.T, p.Fmt, p.Typed.Canon())
				vals = append(vals, &b)
			default:
				b := append([]byte{}, p.Raw...)
				vals = append(vals, &b)
			}
		}
		// (complementary result formats: every portal keeps the formats of its own Bind)
		var orf []int16
		for _, f := range c.RFmts {
			orf = append(orf, 1-f)
		}
		if len(orf) == 0 && i%2 == 0 {
			orf = []int16{1}
		}
		h.Msgs = append(h.Msgs, script.CMsg{K: "B", Portal: c.oname(i), Name: "s", PFmts: fm, Params: vals, RFmts: orf})
	}
	h.Msgs = append(h.Msgs, script.CMsg{K: "D", Kind: 'P', Portal: c.pname()}, script.CMsg{K: "E", Portal: c.pname()})
	if c.Twice {
		// a portal stays what its Bind made it: executed again, the statement sees the same parameters
		h.Msgs = append(h.Msgs, script.CMsg{K: "E", Portal: c.pname()})
	}
	for i := range c.Others {
		h.Msgs = append(h.Msgs, script.CMsg{K: "E", Portal: c.oname(i)})
	}
	h.Msgs = append(h.Msgs, script.CMsg{K: "S"})
	return h, scanAs
}

func Run(c Case) core.Result {
	res := core.Result{}
	nNull, nEmpty, nBin := 0, 0, 0
	for _, p := range c.Params {
		if p.Null {
			nNull++
		} else if (p.Typed == nil && len(p.Raw) == 0) || (p.Typed != nil && len(pgwire.Encode(p.Typed.T, p.Fmt, p.Typed.Canon())) == 0) {
			nEmpty++
		}
		if p.Fmt == 1 {
			nBin++
		}
	}
	lab := func(b bool, s string) {
		if b {
			res.Labels = append(res.Labels, s)
		}
	}
	lab(nNull > 0, "null-parameter")
	lab(nEmpty > 0, "empty-parameter")
	lab(nBin > 0, "binary-parameter")
	lab(c.PShape == "one" && len(c.Params) >= 2, "one-code-for-all(n>=2)")
	lab(len(c.Params) == 0, "no-parameters")
	lab(c.TLS, "inside-tls")
	lab(len(c.Params) > 100, ">100-parameters")
	lab(c.Bulk > 0, ">=32767-parameters")
	lab(c.Twice, "portal-executed-twice")
	lab(c.Big, "values-larger-than-a-page-in-two-portals")
	lab(len(c.Others) > 0, "several-portals-bound-before-execute")
	lab(len(c.Others) > 0 && c.NameFamily != "", "names="+c.NameFamily)
	res.Labels = append(res.Labels, "pshape="+c.PShape)
	mixed := false
	for i := range c.RFmts {
		if c.RFmts[i] != c.RFmts[0] {
			mixed = true
		}
		if c.RFmts[i] == 1 {
			lab(true, "binary-result-column")
		}
	}
	lab(mixed, "per-column-result-formats-differ")
	lab(len(c.RFmts) == 1 && len(c.Cols) >= 2, "one-result-code-for-all")
	res.NonTrivial = nNull > 0 || nEmpty > 0 || nBin > 0 || (c.PShape == "one" && len(c.Params) >= 2) || mixed
	for _, f := range c.RFmts {
		if f == 1 {
			res.NonTrivial = true
		}
	}

	h, scanAs := c.history()
	o := play.Run(h, play.Options{Prefix: "C08", AfterStep: func(i int, msg script.CMsg, step script.Step, env *script.Env) string {
		if msg.K != "E" {
			return ""
		}
		if msg.Portal != c.pname() {
			return ""
		}
		for _, ev := range env.Trace() {
			if ev.K != "stmt" {
				continue
			}
			if len(ev.Params) != len(c.Params)+c.Bulk {
				continue // an execution of another portal
			}
			for j, po := range ev.Params {
				if j >= len(scanAs) || scanAs[j] == "" {
					continue
				}
				p := c.Params[j]
				if po.ScanErr != "" {
					return fmt.Sprintf("parameter %d (%s, format %d, value %s): Scan failed: %s", j, scanAs[j], p.Fmt, pgwire.ValString(p.Typed.Canon()), po.ScanErr)
				}
				if p.Null {
					if po.Scanned != nil {
						return fmt.Sprintf("parameter %d: NULL scanned as %s", j, po.ScanStr)
					}
					continue
				}
				if !pgwire.ValEqual(p.Typed.Canon(), po.Scanned) {
					return fmt.Sprintf("parameter %d (%s, format %d): Scan returned %s, want %s", j, scanAs[j], p.Fmt, po.ScanStr, pgwire.ValString(p.Typed.Canon()))
				}
			}
		}
		return ""
	}})
	res.Inconclusive = o.Inconclusive
	if o.Violation != "" {
		res.Sig, res.Violation = o.Sig, o.Violation
		res.Detail = map[string]any{"transcript": o.Transcript}
	}
	return res
}
