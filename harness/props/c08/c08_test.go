package c08

import (
	"bytes"
	"testing"

	"pgregory.net/rapid"

	"verif/harness/core"
	"verif/harness/gen"
	"verif/harness/pgwire"
	"verif/harness/script"
)

func TestMain(m *testing.M) {
	core.Main(m, "C08", "cases = one Parse/DescribeS/Bind/DescribeP/Execute/Sync pipeline with 0..40 (sometimes up to 2000) parameters, each NULL, empty, arbitrary bytes, or the text/binary rendering of a typed value; parameter format codes in the three admissible shapes (none, one for all, one each); declared parameter OIDs arbitrary; 0..8 result columns over the supported types with result format codes in the admissible shapes; rows of typed values; non-trivial = a NULL or empty parameter, binary format anywhere, the one-code-for-all shape with >= 2 parameters, or differing per-column result formats; distinct = distinct canonical JSON")
}

var scanTypes = []string{"bool", "int2", "int4", "int8", "float4", "float8", "text", "varchar", "name", "bytea", "uuid", "oid", "date", "timestamp", "bpchar", "timestamptz"}

func genCase(t *rapid.T) Case {
	c := Case{Limit: 1 << 20}
	nc := rapid.IntRange(0, 8).Draw(t, "ncols")
	if nc > 0 {
		c.Cols = gen.Cols(nc, pgwire.TypeNames).Draw(t, "cols")
		nr := rapid.IntRange(0, 3).Draw(t, "nrows")
		for i := 0; i < nr; i++ {
			c.Rows = append(c.Rows, gen.Row(c.Cols, 20, true).Draw(t, "row"))
		}
	}
	switch rapid.IntRange(0, 3).Draw(t, "rfmt-shape") {
	case 0:
	case 1:
		c.RFmts = []int16{int16(rapid.IntRange(0, 1).Draw(t, "rfmt"))}
	default:
		for i := 0; i < nc; i++ {
			c.RFmts = append(c.RFmts, int16(rapid.IntRange(0, 1).Draw(t, "rfmt")))
		}
	}
	np := rapid.IntRange(0, 12).Draw(t, "nparams")
	switch rapid.IntRange(0, 30).Draw(t, "many?") {
	case 0:
		np = rapid.IntRange(41, 2000).Draw(t, "nparams-many")
	case 1, 2:
		np = rapid.IntRange(13, 40).Draw(t, "nparams-more")
	}
	if rapid.IntRange(0, 39).Draw(t, "bulk?") == 7 {
		// parameter counts around 2^15 and up to the protocol maximum
		np = rapid.IntRange(0, 3).Draw(t, "nparams-with-bulk")
		c.Bulk = rapid.SampledFrom([]int{32767, 32768, 40000, 65535}).Draw(t, "total-params") - np
	}
	c.Twice = rapid.IntRange(0, 3).Draw(t, "execute-twice") == 0
	c.PShape = rapid.SampledFrom([]string{"none", "one", "each"}).Draw(t, "pshape")
	common := int16(0)
	if c.PShape == "one" {
		common = int16(rapid.IntRange(0, 1).Draw(t, "common-fmt"))
	}
	for i := 0; i < np; i++ {
		p := Param{Fmt: common}
		if c.PShape == "each" {
			p.Fmt = int16(rapid.IntRange(0, 1).Draw(t, "pfmt"))
		}
		switch rapid.IntRange(0, 9).Draw(t, "param-kind") {
		case 0, 1:
			p.Null = true
			if rapid.Bool().Draw(t, "typed-null") {
				v := script.Val{T: rapid.SampledFrom(scanTypes).Draw(t, "ptype"), Null: "nil"}
				p.Typed = &v
			}
		case 2:
			p.Raw = []byte{}
		case 3:
			p.Raw = rapid.SliceOfN(rapid.Byte(), 0, 40).Draw(t, "raw")
		default:
			v := gen.Val(rapid.SampledFrom(scanTypes).Draw(t, "ptype"), 0, false).Draw(t, "pval")
			p.Typed = &v
		}
		c.Params = append(c.Params, p)
	}
	// further portals with fewer / equally many / more parameters, bound before "p" is executed
	no := rapid.SampledFrom([]int{0, 0, 1, 2, 3}).Draw(t, "nothers")
	for i := 0; i < no && np <= 40; i++ {
		k := rapid.IntRange(0, np+1).Draw(t, "other-nparams")
		var ps []Param
		for j := 0; j < k; j++ {
			p := Param{}
			switch rapid.IntRange(0, 3).Draw(t, "other-kind") {
			case 0:
				p.Null = true
			case 1:
				p.Fmt = 1
				p.Raw = rapid.SliceOfN(rapid.Byte(), 0, 8).Draw(t, "other-raw")
			default:
				p.Raw = []byte(rapid.StringMatching(`other[a-z0-9]{0,6}`).Draw(t, "other-text"))
			}
			ps = append(ps, p)
		}
		c.Others = append(c.Others, ps)
	}
	if len(c.Params) > 0 && c.Bulk == 0 && rapid.IntRange(0, 11).Draw(t, "big-values") == 0 {
		// values of two pages in the checked portal and in another portal bound before it is executed
		c.Params[0] = Param{Fmt: c.Params[0].Fmt, Raw: bytes.Repeat([]byte("A"), rapid.SampledFrom([]int{4097, 8000, 12000}).Draw(t, "big-a"))}
		other := []Param{{Raw: bytes.Repeat([]byte("B"), rapid.SampledFrom([]int{4097, 8000, 9000}).Draw(t, "big-b"))}}
		c.Others = append([][]Param{other}, c.Others...)
		c.Big = true
	}
	if fam, pool := gen.Names(t); fam != "plain" && len(c.Others) > 0 {
		c.NameFamily, c.Names = fam, pool[1:]
	}
	c.TLS = rapid.IntRange(0, 7).Draw(t, "inside-tls") == 3
	nd := rapid.IntRange(0, 6).Draw(t, "ndeclared")
	c.Declared = []uint32{}
	for i := 0; i < nd; i++ {
		c.Declared = append(c.Declared, rapid.SampledFrom([]uint32{0, 23, 25, 16, 4294967295, 705, 2950, 1, 65536}).Draw(t, "oid"))
	}
	return c
}

func TestProp(t *testing.T) {
	core.RunProp(t, "main", core.Scale(2000), genCase, Run)
}

// TestForeign: values handed over as Go strings for non-text columns, both result formats.
func TestForeign(t *testing.T) {
	vals := map[string][]script.Val{
		"int2": {{T: "int2", I: 42}, {T: "int2", I: -1}}, "int4": {{T: "int4", I: 42}, {T: "int4", I: 1234}}, "int8": {{T: "int8", I: 42}, {T: "int8", I: 12345678}},
		"bool": {{T: "bool", B: true}}, "float8": {{T: "float8", F: 0x3ff8000000000000}}, "float4": {{T: "float4", F: 0x3fc00000}},
		"oid": {{T: "oid", I: 42}}, "date": {{T: "date", I: 366}}, "timestamp": {{T: "timestamp", I: 86400000000}},
		"uuid": {{T: "uuid", Y: []byte("0123456789abcdef")}}, "bytea": {{T: "bytea", Y: []byte{1, 2, 3, 4}}},
	}
	for _, typ := range script.SortedKeys(vals) {
		for _, v := range vals[typ] {
			for _, f := range []int16{0, 1} {
				core.RunCase(t, "foreign", Foreign{T: typ, Format: f, V: v}, RunForeign)
			}
		}
	}
	core.MarkExhaustive("foreign (11 non-text column types x text rendering passed as a Go string x both result formats)")
}

func TestReplayForeign(t *testing.T) {
	core.Replay(t, map[string]func(Foreign) core.Result{"foreign": RunForeign})
}

func TestReplay(t *testing.T) {
	core.Replay(t, map[string]func(Case) core.Result{"main": Run})
}

// FuzzGen: coverage-guided search over the same generated cases (thorough tier).
func FuzzGen(f *testing.F) {
	core.FuzzProp(f, "main", genCase, Run)
}
