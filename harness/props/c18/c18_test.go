package c18

import (
	"testing"

	"pgregory.net/rapid"

	"verif/harness/core"
	"verif/harness/gen"
)

func TestMain(m *testing.M) {
	core.Main(m, "C18", "cases = limit in {4096-k..4096+k, 8192, 65536} and a history of 5..60 messages (simple queries, Parse, Bind with parameters, Execute, COPY with CopyData chunks, oversized messages that are skipped) whose sizes are chosen against a model of the reader's 4 KiB allocation granule (ending exactly at, just before and just after the edge), around the limit and 3x the limit; every callback retains the very string/slice it was given next to a private copy; after every later message all retained values are compared with their copies; non-trivial = values were retained, >= 4 messages, and the history crosses a granule edge more than once or contains an oversized message; distinct = distinct canonical JSON")
}

func genCase(t *rapid.T) Case {
	c := Case{}
	switch rapid.IntRange(0, 4).Draw(t, "limit-kind") {
	case 0:
		c.Limit = 8192
	case 1:
		c.Limit = 65536
	default:
		c.Limit = 4096 + rapid.IntRange(-12, 12).Draw(t, "limit-delta")
	}
	c.Auth = rapid.Bool().Draw(t, "auth")
	c.App = gen.CString(200).Draw(t, "app")
	if rapid.IntRange(0, 2).Draw(t, "prelude?") == 0 {
		c.Prelude = rapid.SliceOfN(rapid.SampledFrom([]string{"reject", "reject", "cancel", "short"}), 1, 4).Draw(t, "prelude")
	}
	n := rapid.IntRange(5, 60).Draw(t, "nmsgs")
	fillLevel, capNow := 0, 0
	inCopy, bound, parsed := false, false, false
	size := func(overhead int) int {
		rem := capNow - fillLevel
		var s int
		switch rapid.IntRange(0, 9).Draw(t, "size-kind") {
		case 0, 1:
			s = rapid.IntRange(0, 16).Draw(t, "small")
		case 2, 3, 4:
			s = rem - overhead + rapid.IntRange(-2, 2).Draw(t, "edge")
		case 5:
			s = 4096 - overhead + rapid.IntRange(-12, 12).Draw(t, "granule")
		case 6:
			s = c.Limit - overhead + rapid.IntRange(-2, 0).Draw(t, "at-limit")
		case 7:
			s = rapid.IntRange(0, 600).Draw(t, "medium")
		default:
			s = rapid.IntRange(0, 5000).Draw(t, "large")
		}
		if s < 0 {
			s = 0
		}
		if s+overhead > c.Limit {
			s = c.Limit - overhead
		}
		return s
	}
	account := func(body int) {
		if body > c.Limit {
			for rem := body; rem > 0; rem -= c.Limit {
				k := rem
				if k > c.Limit {
					k = c.Limit
				}
				if capNow-fillLevel >= k {
					fillLevel += k
				} else {
					capNow = max(k, 4096)
					fillLevel = k
				}
			}
			return
		}
		if capNow-fillLevel >= body {
			fillLevel += body
			return
		}
		capNow = max(body, 4096)
		fillLevel = body
	}
	for i := 0; i < n; i++ {
		m := Msg{Fill: byte('A' + i%26)}
		k := rapid.IntRange(0, 11).Draw(t, "msg")
		switch {
		case inCopy && k <= 7:
			m.K, m.Size = "copydata", size(0)
			account(m.Size)
		case inCopy && k <= 9:
			m.K = "copydone"
			inCopy = false
			account(0)
		case k <= 3:
			m.K, m.Size = "query", size(1)
			if m.Size == 0 {
				m.Size = 1
			}
			account(m.Size + 1)
		case k == 4:
			m.K, m.Size = "parse", size(6)
			if m.Size == 0 {
				m.Size = 1
			}
			parsed = true
			account(m.Size + 6)
		case k == 5 && parsed && rapid.IntRange(0, 2).Draw(t, "other-name") == 0:
			m.K, m.Size = "parse-other", size(7)
			if m.Size == 0 {
				m.Size = 1
			}
			account(m.Size + 7)
		case k == 5 && parsed:
			m.K, m.Size = "bind", size(22)
			bound = true
			account(m.Size + 22)
		case k == 6 && bound:
			m.K = "execute"
			account(6)
		case k == 7:
			m.K = "sync"
			account(0)
		case k == 8 && !inCopy:
			m.K = "copy-start"
			inCopy = true
			account(5)
		case k == 9:
			m.K, m.Size = "oversized", rapid.SampledFrom([]int{0, 1, 100, 2 * c.Limit}).Draw(t, "over")
			inCopy = false
			account(c.Limit + 1 + m.Size)
		default:
			m.K, m.Size = "query", size(1)
			if m.Size == 0 {
				m.Size = 2
			}
			account(m.Size + 1)
		}
		c.Msgs = append(c.Msgs, m)
	}
	c.Unnamed = rapid.Bool().Draw(t, "unnamed-portal")
	if rapid.IntRange(0, 3).Draw(t, "bounded-cache") == 0 {
		c.StmtCap = 1
	}
	if rapid.IntRange(0, 3).Draw(t, "segmented") == 0 {
		c.Segs = gen.Segments().Draw(t, "segs")
	}
	return c
}

func TestProp(t *testing.T) {
	core.RunProp(t, "main", core.Scale(1200), genCase, Run)
}

func TestReplay(t *testing.T) {
	core.Replay(t, map[string]func(Case) core.Result{"main": Run})
}

// FuzzGen: coverage-guided search over the same generated cases (thorough tier).
func FuzzGen(f *testing.F) {
	core.FuzzProp(f, "main", genCase, Run)
}
