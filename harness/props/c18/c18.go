// Package c18: data handed to callbacks is never overwritten by later traffic.
package c18

import (
	"fmt"

	"verif/harness/core"
	"verif/harness/memnet"
	"verif/harness/pgwire"
	"verif/harness/script"
)

// Msg is one client message with a body of a chosen size.
type Msg struct {
	K    string `json:"k"`    // query | parse | bind | execute | sync | copy-start | copydata | copydone | oversized
	Size int    `json:"size"` // size of the variable part (query text, parameter value, payload, oversized body)
	Fill byte   `json:"fill"` // filler byte distinguishing this message's content
}

type Case struct {
	Limit int    `json:"limit"`
	Auth  bool   `json:"auth,omitempty"`
	Msgs  []Msg  `json:"msgs"`
	Segs  []int  `json:"segs,omitempty"`
	App   string `json:"app,omitempty"` // startup parameter value (retained by middleware)
	// Prelude: connections that come and go before the main one: "reject" (wrong password; the
	// validator retains database/user/password), "cancel" (CancelRequest), "short" (one query).
	Prelude []string `json:"prelude,omitempty"`
	// StmtCap > 0: the application supplies a bounded statement cache; message kind "parse-other"
	// (statement name "s2") is then parsed by the callback - which retains the text - and refused by
	// the cache: what the callback holds stays as valid as for an accepted statement.
	StmtCap int `json:"stmt_cap,omitempty"`
	// Unnamed: the portal is the unnamed one (bound again and again, as drivers do)
	Unnamed bool `json:"unnamed,omitempty"`
}

func (c Case) portal() string {
	if c.Unnamed {
		return ""
	}
	return "p"
}

func fill(n int, b byte) []byte {
	out := make([]byte, n)
	for i := range out {
		out[i] = b
		if i%7 == 3 {
			out[i] = byte('0' + i%10)
		}
	}
	return out
}

func table() script.Table {
	sel := script.Outcome{Stmts: []script.Stmt{{Cols: []script.Col{{Name: "a", T: "int4"}}, Ops: []script.Op{{K: "row", Vals: []script.Val{{T: "int4", I: 7}}}, {K: "complete", Tag: "SELECT 1"}}}}}
	cp := script.Outcome{Stmts: []script.Stmt{{Cols: []script.Col{{Name: "a", T: "text"}}, Ops: []script.Op{{K: "copyin", Copy: &script.CopySpec{MaxReads: -1, OnAbort: "propagate"}}, {K: "complete", Tag: "COPY"}}}}}
	return script.Table{Q: map[string]script.Outcome{"copy": cp}, Def: &sel}
}

func Run(c Case) core.Result {
	res := core.Result{}
	cfg := script.Config{Table: table(), SetLimit: true, Limit: c.Limit, Retain: true, MWs: []script.MW{{}}}
	if c.Auth {
		cfg.Auth = &script.AuthSpec{User: "retained-user", Pass: "retained-password"}
	}
	if c.StmtCap > 0 {
		cfg.CustomCaches, cfg.StmtCap = true, c.StmtCap
		res.Labels = append(res.Labels, "bounded-user-statement-cache")
	}
	env := script.Start(cfg)
	defer env.Stop()
	for i, k := range c.Prelude {
		p := env.NewSess()
		switch k {
		case "reject":
			if c.Auth {
				pw := fmt.Sprintf("wrong-password-of-prelude-%d", i)
				p.Startup([][2]string{{"user", fmt.Sprintf("prelude-user-%d", i)}, {"database", fmt.Sprintf("prelude-db-%d", i)}}, &pw)
			}
		case "cancel":
			p.Send(pgwire.CancelRequest(uint32(i), 7))
		case "short":
			var pw *string
			u := "u"
			if c.Auth {
				u, pw = cfg.Auth.User, &cfg.Auth.Pass
			}
			p.Startup([][2]string{{"user", u}}, pw)
			p.Send(pgwire.Query(fmt.Sprintf("select prelude %d", i)))
		}
		p.C.CloseWrite()
		p.C.WaitClosed(script.Guard)
	}
	if len(c.Prelude) > 0 {
		res.Labels = append(res.Labels, "earlier-connections")
	}
	s := env.NewSess()
	if c.Segs != nil {
		s.C.SetSegments(c.Segs, true)
	}
	user := "u"
	var pass *string
	if c.Auth {
		user = cfg.Auth.User
		pass = &cfg.Auth.Pass
	}
	st := s.Startup([][2]string{{"user", user}, {"application_name", c.App}}, pass)
	if st.State != memnet.Idle {
		if st.State == memnet.Timeout {
			res.Inconclusive = "startup guard"
			return res
		}
		// startup larger than a tiny limit: nothing to retain
		return res
	}
	inCopy := false
	crossings, oversized, checksAfter := 0, 0, 0
	fillLevel := 0 // bytes used in the reader's current allocation (model of the 4 KiB granule)
	capNow := 0
	account := func(n int) {
		if capNow-fillLevel >= n {
			fillLevel += n
			return
		}
		crossings++
		capNow = n
		if capNow < 4096 {
			capNow = 4096
		}
		fillLevel = n
	}
	for i, m := range c.Msgs {
		var b []byte
		switch m.K {
		case "query":
			b = pgwire.Query(string(fill(m.Size, m.Fill)))
		case "parse":
			b = pgwire.Parse("s", string(fill(m.Size, m.Fill)), nil)
		case "parse-other":
			b = pgwire.Parse("s2", string(fill(m.Size, m.Fill)), nil)
		case "bind":
			b = pgwire.Bind(c.portal(), "s", nil, [][]byte{fill(m.Size, m.Fill), fill(3, m.Fill)}, nil)
		case "execute":
			b = pgwire.Execute(c.portal(), 0)
		case "sync":
			b = pgwire.Sync()
		case "copy-start":
			b = pgwire.Query("copy")
			inCopy = true
		case "copydata":
			b = pgwire.CopyData(fill(m.Size, m.Fill))
		case "copydone":
			b = pgwire.CopyDone()
			inCopy = false
		case "oversized":
			b = pgwire.Msg('Q', fill(c.Limit+1+m.Size, m.Fill))
			oversized++
			if inCopy {
				inCopy = false
			}
		}
		body := len(b) - 5
		if body <= c.Limit {
			account(body)
		} else {
			for rem := body; rem > 0; rem -= c.Limit {
				n := rem
				if n > c.Limit {
					n = c.Limit
				}
				account(n)
			}
		}
		r := s.Send(b)
		if r.State == memnet.Timeout {
			res.Inconclusive = fmt.Sprintf("message %d: guard", i)
			return res
		}
		if ps := env.Panics(); len(ps) > 0 {
			return core.Fail("C18/panic", "message %d: %s", i, ps[0].Value)
		}
		if r.State == memnet.Closed {
			break
		}
		n, d := env.CheckRetained()
		checksAfter += n
		if d != "" {
			return core.Fail("C18/retained-value-changed", "after message %d (%s, %d bytes; limit %d): %s", i, m.K, m.Size, c.Limit, d)
		}
	}
	// parameters delivered by a late Execute must equal the copies taken at Bind time (checked via the retained list)
	n, d := env.CheckRetained()
	if d != "" {
		return core.Fail("C18/retained-value-changed", "at the end: %s", d)
	}
	core.Count("retained-values", n)
	core.Count("rechecks", checksAfter)
	core.Count("granule-crossings(modelled)", crossings)
	if crossings > 0 {
		res.Labels = append(res.Labels, "crosses-granule")
	}
	if oversized > 0 {
		res.Labels = append(res.Labels, "oversized-skipped")
	}
	res.NonTrivial = n > 0 && len(c.Msgs) >= 4 && (crossings > 1 || oversized > 0 || len(c.Prelude) > 0)
	return res
}
