// Package c07: statement and portal names resolve to the latest definition,
// per connection.
package c07

import (
	"fmt"

	"verif/harness/core"
	"verif/harness/memnet"
	"verif/harness/model"
	"verif/harness/pgwire"
	"verif/harness/script"
)

// Case: per-connection histories plus the interleaving (which connection
// sends its next message).
type Case struct {
	NConn        int             `json:"nconn"`
	Msgs         [][]script.CMsg `json:"msgs"`
	Schedule     []int           `json:"schedule"`
	Classes      []string        `json:"classes,omitempty"`
	OptSeed      int             `json:"opt_seed,omitempty"`
	CustomCaches bool            `json:"custom_caches,omitempty"`
	NameFamily   string          `json:"name_family,omitempty"`
}

const queriesPerConn = 6

func QueryText(conn, k int) string { return fmt.Sprintf("c%d:q%d", conn, k) }

// Table builds the identity-echoing handler table: the statement for query
// (conn,k) has a column set, parameter list, row and tag unique to it.
func Table(nconn int) script.Table {
	tb := script.Table{Q: map[string]script.Outcome{}}
	for c := 0; c < nconn; c++ {
		for k := 0; k < queriesPerConn; k++ {
			id := QueryText(c, k)
			st := script.Stmt{ID: id}
			for j := 0; j <= k%3; j++ {
				st.Cols = append(st.Cols, script.Col{Name: fmt.Sprintf("%s_col%d", id, j), T: []string{"text", "int4", "varchar"}[j]})
			}
			for j := 0; j < k%3; j++ {
				st.Params = append(st.Params, uint32(20+k+j+10*c))
			}
			if st.Params == nil {
				st.Params = []uint32{}
			}
			row := make([]script.Val, len(st.Cols))
			for j, col := range st.Cols {
				if col.T == "int4" {
					row[j] = script.Val{T: "int4", I: int64(1000*c + k)}
				} else {
					row[j] = script.Val{T: col.T, S: "row-of-" + id}
				}
			}
			st.Ops = []script.Op{{K: "row", Vals: row}, {K: "complete", Tag: "TAG " + id}}
			tb.Q[id] = script.Outcome{Stmts: []script.Stmt{st}}
		}
	}
	// texts the parser refuses: an error, no statement, two statements (a Parse of any of them fails
	// and must leave the name it was aimed at as it was)
	tb.Q["refused: error"] = script.Outcome{Err: &script.ErrSpec{Base: "parser refuses"}}
	tb.Q["refused: empty"] = script.Outcome{}
	one := script.Stmt{Ops: []script.Op{{K: "complete", Tag: "X"}}}
	tb.Q["refused: two"] = script.Outcome{Stmts: []script.Stmt{one, one}}
	return tb
}

func Run(c Case) (res core.Result) {
	res = core.Result{Labels: append([]string{fmt.Sprintf("connections=%d", c.NConn)}, c.Classes...)}
	for _, cl := range c.Classes {
		switch cl {
		case "failed-reparse", "simple-query-between", "large-message-between", "reparse-before-execute", "rebind-portal", "close-then-use", "same-name-on-two-connections", "describe-after-reparse", "params-per-portal":
			res.NonTrivial = true
		}
	}
	cfg := script.Config{Table: Table(c.NConn), SetLimit: true, Limit: 1 << 15, OptSeed: c.OptSeed, CustomCaches: c.CustomCaches}
	if c.CustomCaches {
		res.Labels = append(res.Labels, "user-supplied-caches")
	}
	if c.NameFamily != "" {
		res.Labels = append(res.Labels, "names="+c.NameFamily)
	}
	mark := core.RaceMark()
	env := script.Start(cfg)
	defer env.Stop()
	defer func() {
		if res.Violation == "" && res.Inconclusive == "" {
			res = core.RaceResult(res, "C07", core.RaceSince(mark))
		}
	}()
	sess := make([]*script.Sess, c.NConn)
	mds := make([]*model.Model, c.NConn)
	next := make([]int, c.NConn)
	for i := range sess {
		sess[i] = env.NewSess()
		st := sess[i].Startup(script.DefaultPairs(fmt.Sprintf("user%d", i)), nil)
		if st.State == memnet.Timeout {
			res.Inconclusive = "startup guard"
			return res
		}
		if !script.Ready(st.Msgs) {
			res.Sig, res.Violation = "C07/startup", fmt.Sprintf("connection %d: startup failed: %v", i, pgwire.Briefs(st.Msgs))
			return res
		}
		mds[i] = model.New(cfg.Table)
	}
	for step, ci := range c.Schedule {
		if ci >= c.NConn || next[ci] >= len(c.Msgs[ci]) {
			continue
		}
		msg := c.Msgs[ci][next[ci]]
		next[ci]++
		before := len(env.Trace())
		exp, evs := mds[ci].Step(msg)
		r := sess[ci].Send(msg.Bytes())
		where := fmt.Sprintf("step %d: connection %d message %d %s", step, ci, next[ci]-1, msg)
		if r.State == memnet.Timeout {
			res.Inconclusive = where + ": no quiescence"
			return res
		}
		if ps := env.Panics(); len(ps) > 0 {
			res.Sig, res.Violation = "C07/panic", where+": "+ps[0].Value
			return res
		}
		if r.Err != nil {
			res.Sig, res.Violation = "C07/"+msg.K+"/grammar", where+": "+r.Err.Error()
			return res
		}
		if d := model.Match(exp, r.Msgs); d != "" {
			res.Sig, res.Violation = "C07/"+msg.K+"/reply", where+": "+d
			return res
		}
		if r.State == memnet.Closed {
			res.Sig, res.Violation = "C07/"+msg.K+"/dropped", where+": connection closed by the server"
			return res
		}
		tr := env.Trace()[before:]
		// isolation: everything that ran belongs to this connection
		myID := sess[ci].C.ID
		for _, ev := range tr {
			if ev.Conn != myID {
				res.Sig, res.Violation = "C07/isolation/foreign-callback", fmt.Sprintf("%s: a callback ran on connection %d (event %s %q)", where, ev.Conn, ev.K, ev.Q)
				return res
			}
			if (ev.K == "stmt" || ev.K == "parse") && len(ev.Q) > 2 && ev.Q[0] == 'c' && ev.Q[:2] != fmt.Sprintf("c%d", ci) {
				res.Sig, res.Violation = "C07/isolation/foreign-statement", fmt.Sprintf("%s: statement %q of another connection was used", where, ev.Q)
				return res
			}
		}
		if d := model.MatchEvents(evs, tr); d != "" {
			res.Sig, res.Violation = "C07/"+msg.K+"/events", where+": "+d
			return res
		}
		// other connections produced nothing
		for j, s := range sess {
			if j != ci && s.C.OutLen() != lenParsed(s) {
				res.Sig, res.Violation = "C07/isolation/foreign-output", fmt.Sprintf("%s: connection %d received bytes", where, j)
				return res
			}
		}
	}
	return res
}

func lenParsed(s *script.Sess) int {
	n := 0
	for _, m := range s.Msgs {
		n += len(m.Raw)
	}
	return n
}
