package c07

import (
	"strings"
	"testing"

	"pgregory.net/rapid"

	"verif/harness/core"
	"verif/harness/gen"
	"verif/harness/model"
	"verif/harness/script"
)

func TestMain(m *testing.M) {
	core.Main(m, "C07", "cases = 1..3 connections, each with a history of Parse/Bind/Describe/Execute/Close batches over the shared name pool {\"\",a,b} x {\"\",p,q}; every query text has a statement that echoes its own identity (unique columns, declared parameters, row, tag); scenarios are constructed class-first (re-Parse between Bind and Execute, rebinding a portal, Close then use, Describe after re-Parse, several portals on one statement with different parameters, a name that is only defined on another connection) and the per-step interleaving of the connections is a generated schedule; non-trivial = at least one of those scenario classes occurs; distinct = distinct canonical JSON")
}

var stmtNames = []string{"", "a", "b"}
var portalNames = []string{"", "p", "q"}

type builder struct {
	t     *rapid.T
	conn  int
	md    *model.Model
	msgs  []script.CMsg
	class map[string]bool
}

func (b *builder) emit(m script.CMsg) {
	b.md.Step(m)
	b.msgs = append(b.msgs, m)
}

func (b *builder) q() string {
	return QueryText(b.conn, rapid.IntRange(0, queriesPerConn-1).Draw(b.t, "query"))
}

func (b *builder) otherQ(not string) string {
	for {
		q := b.q()
		if q != not {
			return q
		}
	}
}

func (b *builder) sname() string { return rapid.SampledFrom(stmtNames).Draw(b.t, "stmt-name") }
func (b *builder) pname() string { return rapid.SampledFrom(portalNames).Draw(b.t, "portal-name") }

func (b *builder) args() []*[]byte {
	n := rapid.IntRange(0, 3).Draw(b.t, "nargs")
	var out []*[]byte
	for i := 0; i < n; i++ {
		v := []byte(rapid.StringMatching(`[a-z0-9]{0,6}`).Draw(b.t, "arg"))
		out = append(out, &v)
	}
	return out
}

func (b *builder) fmts() []int16 {
	switch rapid.IntRange(0, 2).Draw(b.t, "rfmt") {
	case 0:
		return nil
	case 1:
		return []int16{0}
	}
	return []int16{1}
}

func (b *builder) bind(p, s string) script.CMsg {
	return script.CMsg{K: "B", Portal: p, Name: s, Params: b.args(), RFmts: b.fmts()}
}

func (b *builder) batch(kind string, foreign []string) {
	t := b.t
	switch kind {
	case "plain":
		s, p := b.sname(), b.pname()
		b.emit(script.CMsg{K: "P", Name: s, Query: b.q()})
		b.emit(b.bind(p, s))
		if rapid.Bool().Draw(t, "describe?") {
			b.emit(script.CMsg{K: "D", Kind: 'P', Portal: p})
		}
		b.emit(script.CMsg{K: "E", Portal: p})
	case "large-message-between":
		// definitions, then a message of >= 4096 bytes (its own read-buffer allocation), more small
		// traffic, then the earlier names and parameters are used
		s, p := b.sname(), b.pname()
		b.emit(script.CMsg{K: "P", Name: s, Query: b.q()})
		b.emit(b.bind(p, s))
		big := []byte(strings.Repeat("x", rapid.SampledFrom([]int{4090, 4096, 5000, 9000}).Draw(t, "big-size")))
		other := "q"
		if p == "q" {
			other = "p"
		}
		b.emit(script.CMsg{K: "B", Portal: other, Name: s, Params: []*[]byte{&big}})
		for i, n := 0, rapid.IntRange(1, 6).Draw(t, "small-after"); i < n; i++ {
			b.emit(script.CMsg{K: "P", Name: "b", Query: b.q()})
		}
		b.emit(script.CMsg{K: "D", Kind: 'P', Portal: p})
		b.emit(script.CMsg{K: "E", Portal: p})
		if s != "b" {
			b.emit(b.bind("", s))
			b.emit(script.CMsg{K: "E", Portal: ""})
		}
	case "failed-reparse":
		// a Parse that fails defines nothing and destroys nothing: the name still resolves to what it
		// was (or still does not resolve); the failure discards the rest of the batch
		s, p := b.sname(), b.pname()
		if rapid.IntRange(0, 3).Draw(t, "defined-before") != 0 {
			b.emit(script.CMsg{K: "P", Name: s, Query: b.q()})
			if rapid.Bool().Draw(t, "bound-before") {
				b.emit(b.bind(p, s))
			}
		}
		b.emit(script.CMsg{K: "P", Name: s, Query: rapid.SampledFrom([]string{"refused: error", "refused: empty", "refused: two"}).Draw(t, "refused")})
		b.emit(script.CMsg{K: "S"})
		b.emit(script.CMsg{K: "D", Kind: 'S', Name: s})
		b.emit(b.bind(p, s))
		b.emit(script.CMsg{K: "E", Portal: p})
	case "simple-query-between":
		// the two protocols share the connection, not the namespace: a simple Query between a Bind and
		// its Execute leaves statements and portals - the unnamed ones included - as they were
		s, p := b.sname(), b.pname()
		if rapid.Bool().Draw(t, "unnamed") {
			s, p = "", ""
		}
		b.emit(script.CMsg{K: "P", Name: s, Query: b.q()})
		b.emit(b.bind(p, s))
		if rapid.Bool().Draw(t, "sync-first") {
			b.emit(script.CMsg{K: "S"})
		}
		for i, n := 0, rapid.IntRange(1, 3).Draw(t, "simple-queries"); i < n; i++ {
			b.emit(script.CMsg{K: "Q", Query: b.q()})
		}
		if rapid.Bool().Draw(t, "describe") {
			b.emit(script.CMsg{K: "D", Kind: 'P', Portal: p})
		}
		b.emit(script.CMsg{K: "E", Portal: p})
		b.emit(b.bind("", s))
		b.emit(script.CMsg{K: "E", Portal: ""})
	case "reparse-before-execute":
		s, p := b.sname(), b.pname()
		qa := b.q()
		b.emit(script.CMsg{K: "P", Name: s, Query: qa})
		b.emit(b.bind(p, s))
		b.emit(script.CMsg{K: "P", Name: s, Query: b.otherQ(qa)})
		if rapid.Bool().Draw(t, "describe?") {
			b.emit(script.CMsg{K: "D", Kind: 'P', Portal: p})
		}
		b.emit(script.CMsg{K: "E", Portal: p}) // must run qa
		p2 := b.pname()
		b.emit(b.bind(p2, s))
		b.emit(script.CMsg{K: "E", Portal: p2}) // must run the re-parsed statement
	case "rebind-portal":
		s1, p := b.sname(), b.pname()
		qa := b.q()
		b.emit(script.CMsg{K: "P", Name: s1, Query: qa})
		s2 := b.sname()
		b.emit(script.CMsg{K: "P", Name: s2, Query: b.otherQ(qa)})
		if b.md.HasStmt(s1) {
			b.emit(b.bind(p, s1))
		}
		b.emit(b.bind(p, s2))
		b.emit(script.CMsg{K: "D", Kind: 'P', Portal: p})
		b.emit(script.CMsg{K: "E", Portal: p})
	case "describe-after-reparse":
		s := b.sname()
		qa := b.q()
		b.emit(script.CMsg{K: "P", Name: s, Query: qa})
		b.emit(script.CMsg{K: "D", Kind: 'S', Name: s})
		b.emit(script.CMsg{K: "P", Name: s, Query: b.otherQ(qa)})
		b.emit(script.CMsg{K: "D", Kind: 'S', Name: s})
	case "params-per-portal":
		s := b.sname()
		b.emit(script.CMsg{K: "P", Name: s, Query: b.q()})
		b.emit(b.bind("p", s))
		b.emit(b.bind("q", s))
		b.emit(b.bind("", s))
		for _, p := range rapid.Permutation(portalNames).Draw(t, "exec-order") {
			b.emit(script.CMsg{K: "E", Portal: p})
		}
	case "close-then-use":
		s, p := b.sname(), b.pname()
		b.emit(script.CMsg{K: "P", Name: s, Query: b.q()})
		b.emit(b.bind(p, s))
		if rapid.Bool().Draw(t, "close-stmt?") {
			// close a statement no live portal was made from: re-parse under another name first
			s2 := b.sname()
			if s2 == s {
				b.emit(script.CMsg{K: "C", Kind: 'P', Portal: p})
			} else {
				b.emit(script.CMsg{K: "P", Name: s2, Query: b.q()})
				s = s2
			}
			b.emit(script.CMsg{K: "C", Kind: 'S', Name: s})
			if rapid.Bool().Draw(t, "use-describe?") {
				b.emit(script.CMsg{K: "D", Kind: 'S', Name: s})
			} else {
				b.emit(b.bind(b.pname(), s))
			}
		} else {
			b.emit(script.CMsg{K: "C", Kind: 'P', Portal: p})
			if rapid.Bool().Draw(t, "use-describe?") {
				b.emit(script.CMsg{K: "D", Kind: 'P', Portal: p})
			} else {
				b.emit(script.CMsg{K: "E", Portal: p})
			}
		}
		// after the Sync the name can be defined again
	case "same-name-on-two-connections":
		// use a statement name that (at generation time) only other connections have defined
		for _, n := range foreign {
			if !b.md.HasStmt(n) {
				if rapid.Bool().Draw(t, "bind-or-describe") {
					b.emit(b.bind(b.pname(), n))
				} else {
					b.emit(script.CMsg{K: "D", Kind: 'S', Name: n})
				}
				b.class[kind] = true
				b.emit(script.CMsg{K: "S"})
				return
			}
		}
		// every name is also defined here: define the same name with our own query and execute it
		s := b.sname()
		b.emit(script.CMsg{K: "P", Name: s, Query: b.q()})
		b.emit(b.bind("", s))
		b.emit(script.CMsg{K: "E", Portal: ""})
		if len(foreign) > 0 {
			b.class[kind] = true
		}
		b.emit(script.CMsg{K: "S"})
		return
	}
	b.class[kind] = true
	b.emit(script.CMsg{K: "S"})
}

var kinds = []string{"failed-reparse", "simple-query-between", "large-message-between", "plain", "reparse-before-execute", "rebind-portal", "describe-after-reparse", "params-per-portal", "close-then-use", "same-name-on-two-connections"}

func genCase(t *rapid.T) Case {
	c := Case{NConn: rapid.SampledFrom([]int{1, 1, 2, 2, 3}).Draw(t, "nconn")}
	c.OptSeed = rapid.IntRange(0, 1000).Draw(t, "option-order")
	stmtNames, portalNames = []string{"", "a", "b"}, []string{"", "p", "q"}
	if fam, pool := gen.Names(t); fam != "plain" {
		c.NameFamily, stmtNames, portalNames = fam, pool, pool
	}
	c.CustomCaches = rapid.IntRange(0, 3).Draw(t, "custom-caches") == 2
	tb := Table(c.NConn)
	bs := make([]*builder, c.NConn)
	class := map[string]bool{}
	for i := range bs {
		bs[i] = &builder{t: t, conn: i, md: model.New(tb), class: class}
	}
	nb := rapid.IntRange(1, 6).Draw(t, "nbatches")
	for i := 0; i < nb; i++ {
		ci := rapid.IntRange(0, c.NConn-1).Draw(t, "conn")
		var foreign []string
		for j, o := range bs {
			if j != ci {
				for _, n := range stmtNames {
					if o.md.HasStmt(n) {
						foreign = append(foreign, n)
					}
				}
			}
		}
		kind := rapid.SampledFrom(kinds).Draw(t, "batch")
		if kind == "same-name-on-two-connections" && c.NConn == 1 {
			kind = "plain"
		}
		bs[ci].batch(kind, foreign)
	}
	total := 0
	for _, b := range bs {
		c.Msgs = append(c.Msgs, b.msgs)
		total += len(b.msgs)
	}
	// interleaving: the statement-name knowledge used above ("foreign") is generation-time only; the
	// per-connection models make every interleaving checkable, so any schedule is fine.
	remaining := make([]int, c.NConn)
	for i, b := range bs {
		remaining[i] = len(b.msgs)
	}
	for len(c.Schedule) < total {
		ci := rapid.IntRange(0, c.NConn-1).Draw(t, "sched")
		for remaining[ci] == 0 {
			ci = (ci + 1) % c.NConn
		}
		// run a short burst on the same connection to vary the grain
		burst := rapid.IntRange(1, 4).Draw(t, "burst")
		for k := 0; k < burst && remaining[ci] > 0; k++ {
			c.Schedule = append(c.Schedule, ci)
			remaining[ci]--
		}
	}
	for k := range class {
		c.Classes = append(c.Classes, k)
	}
	sortStrings(c.Classes)
	return c
}

func sortStrings(s []string) {
	for i := range s {
		for j := i + 1; j < len(s); j++ {
			if s[j] < s[i] {
				s[i], s[j] = s[j], s[i]
			}
		}
	}
}

func TestProp(t *testing.T) {
	core.RunProp(t, "main", core.Scale(1500), genCase, Run)
}

func TestReplay(t *testing.T) {
	core.Replay(t, map[string]func(Case) core.Result{"main": Run})
}

// FuzzGen: coverage-guided search over the same generated cases (thorough tier).
func FuzzGen(f *testing.F) {
	core.FuzzProp(f, "main", genCase, Run)
}
