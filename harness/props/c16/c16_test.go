package c16

import (
	"fmt"
	"testing"

	"pgregory.net/rapid"

	"verif/harness/core"
)

func TestMain(m *testing.M) {
	core.Main(m, "C16", "cases = scenario of 0..3 connections each brought into one of {idle after ReadyForQuery, mid-message, held between the closing check and WaitGroup.Add (admitted), held after Add before the handler (registered), inside a statement function (simple query / Execute), inside the parser, inside the first of three pipelined commands} x 1..3 Close callers (concurrent or sequential) each cooperatively held at {none, after the closing check, after close(closer)} x a release order over all holds, gates, message remainders and new queries; oracle over logical timestamps: no Close caller or server goroutine panics, every Close returns once everything is released, no parser/statement interval starts after or spans the last return of the first group of Close calls, Serve returns nil, the listener is closed once, later Close calls return; non-trivial = a connection is admitted/registered/inside a handler when Close runs, or >= 2 callers held at the same point; small scenarios (<= 2 connections, <= 2 callers) have their release orders enumerated exhaustively; distinct = distinct canonical JSON")
}

var states = []string{"idle", "discarding", "in-copy", "auth-prompt", "after-panic", "midbatch", "midmsg", "admitted", "registered", "in-stmt", "in-exec", "in-parser", "pipelined"}
var holds = []string{"", "close.checked", "close.closed"}

func tokens(nc, nk int) []string {
	var t []string
	for i := 0; i < nc; i++ {
		t = append(t, fmt.Sprintf("c%d", i))
	}
	for j := 0; j < nk; j++ {
		t = append(t, fmt.Sprintf("k%d", j))
	}
	return t
}

func genCase(t *rapid.T) Case {
	c := Case{GraceMS: 12}
	nc := rapid.IntRange(0, 3).Draw(t, "nconns")
	for i := 0; i < nc; i++ {
		c.Conns = append(c.Conns, ConnSpec{State: rapid.SampledFrom(states).Draw(t, "state")})
	}
	nk := rapid.IntRange(1, 3).Draw(t, "nclosers")
	same := rapid.SampledFrom(holds).Draw(t, "common-hold")
	for j := 0; j < nk; j++ {
		h := same
		if rapid.IntRange(0, 2).Draw(t, "own-hold") == 0 {
			h = rapid.SampledFrom(holds).Draw(t, "hold")
		}
		c.Closers = append(c.Closers, CloserSpec{Hold: h})
	}
	c.Sequential = nk > 1 && rapid.IntRange(0, 3).Draw(t, "sequential") == 0
	toks := tokens(nc, nk)
	for i := 0; i < nc; i++ {
		if rapid.IntRange(0, 2).Draw(t, "new-query") == 0 {
			toks = append(toks, fmt.Sprintf("q%d", i))
		}
	}
	c.Order = rapid.Permutation(toks).Draw(t, "order")
	return c
}

func TestProp(t *testing.T) {
	core.RunProp(t, "main", core.Scale(250), genCase, Run)
}

func permutations(a []string) [][]string {
	if len(a) <= 1 {
		return [][]string{append([]string{}, a...)}
	}
	var out [][]string
	for i := range a {
		rest := append(append([]string{}, a[:i]...), a[i+1:]...)
		for _, p := range permutations(rest) {
			out = append(out, append([]string{a[i]}, p...))
		}
	}
	return out
}

// TestSmallSpace enumerates every (state, hold) scenario with one
// connection and one or two callers, with all release orders.
func TestSmallSpace(t *testing.T) {
	shard, shards := core.Shard()
	n := 0
	for _, st := range states {
		for _, h1 := range holds {
			for _, h2 := range append([]string{"-"}, holds...) {
				closers := []CloserSpec{{Hold: h1}}
				if h2 != "-" {
					closers = append(closers, CloserSpec{Hold: h2})
				}
				for _, ord := range permutations(tokens(1, len(closers))) {
					n++
					if n%shards != shard {
						continue
					}
					core.RunCase(t, "small", Case{Conns: []ConnSpec{{State: st}}, Closers: closers, Order: ord, GraceMS: 12}, Run)
				}
			}
		}
	}
	// no connection at all, 1..3 callers at every hold combination
	for _, h1 := range holds {
		for _, h2 := range holds {
			n++
			if n%shards != shard {
				continue
			}
			core.RunCase(t, "small", Case{Closers: []CloserSpec{{Hold: h1}, {Hold: h2}}, Order: []string{"k0", "k1"}, GraceMS: 12}, Run)
			core.RunCase(t, "small", Case{Closers: []CloserSpec{{Hold: h1}, {Hold: h2}, {Hold: h1}}, Order: []string{"k2", "k0", "k1"}, GraceMS: 12}, Run)
		}
	}
	core.MarkExhaustive("small (8 states x holds of 1..2 callers x all release orders; 0 connections x 2..3 callers)")
}

// TestEarlyClose: Close before, while and after Serve is started.
func TestEarlyClose(t *testing.T) {
	if shard, _ := core.Shard(); shard != 0 {
		return
	}
	for before := 0; before <= 2; before++ {
		for conc := 0; conc <= 3; conc++ {
			for after := 0; after <= 2; after++ {
				for _, dial := range []bool{false, true} {
					for acc := 0; acc <= 2; acc++ {
						core.RunCase(t, "early", Early{ClosesBefore: before, Concurrent: conc, ClosesAfter: after, Dial: dial, AcceptErr: acc}, RunEarly)
					}
				}
			}
		}
	}
	core.MarkExhaustive("early (0..2 Close calls before Serve x 0..3 racing with its start x 0..2 after, with/without a pending client, Accept failing before / after the loop is parked)")
}

func TestReplayEarly(t *testing.T) {
	core.Replay(t, map[string]func(Early) core.Result{"early": RunEarly})
}

func TestReplay(t *testing.T) {
	core.Replay(t, map[string]func(Case) core.Result{"main": Run, "small": Run})
}
