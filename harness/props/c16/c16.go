// Package c16: Close is graceful, final, idempotent and concurrency-safe.
// The goroutine schedule around Close and command admission is owned by the
// harness through the build-tag schedule points of the library.
package c16

import (
	"fmt"
	"runtime"
	"strings"
	"sync"
	"time"

	"verif/harness/core"
	"verif/harness/memnet"
	"verif/harness/pgwire"
	"verif/harness/script"
)

// ConnSpec: the state a connection is brought into before Close is called.
type ConnSpec struct {
	State string `json:"state"` // idle | discarding | in-copy | auth-prompt | after-panic | midbatch | midmsg | admitted | registered | in-stmt | in-exec | in-parser | pipelined
}

// CloserSpec: one Close caller and the point it is (cooperatively) held at.
type CloserSpec struct {
	Hold string `json:"hold"` // "" | close.checked | close.closed
}

// Case: scenario + release order. Release tokens: "c<i>" releases whatever
// holds connection i (hold, gate) and sends the rest of its message; "k<j>"
// releases Close caller j; "q<i>" sends a new query on connection i.
type Case struct {
	Conns      []ConnSpec   `json:"conns"`
	Closers    []CloserSpec `json:"closers"`
	Order      []string     `json:"order"`
	Sequential bool         `json:"sequential,omitempty"` // Close callers one after the other
	BeforeSrv  bool         `json:"before_serve,omitempty"`
	GraceMS    int          `json:"grace_ms"`
}

// ---- hold manager ------------------------------------------------------------

type hold struct {
	arrived chan struct{}
	release chan struct{}
}

type manager struct {
	mu    sync.Mutex
	holds map[string][]*hold // per point: holds for the next arrivals, in order
	grace time.Duration
	log   []string
}

func (m *manager) add(point string) *hold {
	h := &hold{arrived: make(chan struct{}), release: make(chan struct{})}
	m.mu.Lock()
	m.holds[point] = append(m.holds[point], h)
	m.mu.Unlock()
	return h
}

// point is called by library goroutines at the schedule points. A hold is
// cooperative: it ends when released or when the grace period is over, so an
// owned schedule can delay a goroutine but never manufacture a deadlock.
func (m *manager) point(name string) {
	m.mu.Lock()
	q := m.holds[name]
	var h *hold
	if len(q) > 0 {
		h, m.holds[name] = q[0], q[1:]
	}
	m.mu.Unlock()
	if h == nil {
		return
	}
	close(h.arrived)
	select {
	case <-h.release:
	case <-time.After(m.grace * 6):
	}
}

func (h *hold) free() {
	select {
	case <-h.release:
	default:
		close(h.release)
	}
}

// await waits (bounded by the grace period) for an arrival.
func (m *manager) await(h *hold) bool {
	select {
	case <-h.arrived:
		return true
	case <-time.After(m.grace):
		return false
	}
}

func table(n int) script.Table {
	tb := script.Table{Q: map[string]script.Outcome{
		"select 1": {Stmts: []script.Stmt{{Cols: []script.Col{{Name: "a", T: "int4"}}, Ops: []script.Op{{K: "row", Vals: []script.Val{{T: "int4", I: 1}}}, {K: "complete", Tag: "SELECT 1"}}}}},
	}}
	// COPY-in read to the end of the stream: the statement function is running for as long as the client
	// keeps the stream open
	tb.Q["copy in"] = script.Outcome{Stmts: []script.Stmt{{Cols: []script.Col{{Name: "a", T: "text"}}, Ops: []script.Op{{K: "copyin", Copy: &script.CopySpec{MaxReads: -1, OnAbort: "propagate"}}, {K: "complete", Tag: "COPY"}}}}}
	tb.Q["panics"] = script.Outcome{Stmts: []script.Stmt{{Ops: []script.Op{{K: "panic"}}}}}
	for i := 0; i < n; i++ {
		tb.Q[fmt.Sprintf("gated%d", i)] = script.Outcome{Stmts: []script.Stmt{{Ops: []script.Op{{K: "gate", Gate: fmt.Sprintf("g%d", i)}, {K: "complete", Tag: "GATED"}}}}}
		tb.Q[fmt.Sprintf("pgated%d", i)] = script.Outcome{Gate: fmt.Sprintf("g%d", i), Stmts: []script.Stmt{{Ops: []script.Op{{K: "complete", Tag: "PGATED"}}}}}
	}
	return tb
}

type closeRec struct {
	call, ret int64
	panicked  string
	returned  bool
}

func Run(c Case) (res core.Result) {
	mark := core.RaceMark()
	defer func() {
		if res.Violation == "" && res.Inconclusive == "" {
			res = core.RaceResult(res, "C16", core.RaceSince(mark))
		}
	}()
	grace := time.Duration(c.GraceMS) * time.Millisecond
	if grace <= 0 {
		grace = 15 * time.Millisecond
	}
	m := &manager{holds: map[string][]*hold{}, grace: grace}
	script.SetPointFn(m.point)
	defer script.SetPointFn(nil)

	cfg := script.Config{Table: table(len(c.Conns)), SetLimit: true, Limit: 4096}
	var pass *string
	for _, cs := range c.Conns {
		if cs.State == "auth-prompt" {
			// password logins for everybody; this connection stays at its password prompt: nothing of
			// it has started, Close does not wait for it
			cfg.Auth = &script.AuthSpec{User: "u", Pass: "pw"}
			p := "pw"
			pass = &p
		}
	}
	env := script.Start(cfg)
	// (env.Stop is not used: Close is the subject of the test)
	defer func() {
		for i := range c.Conns {
			env.Release(fmt.Sprintf("g%d", i))
		}
	}()

	// classification
	inflight := 0
	for _, cs := range c.Conns {
		res.Labels = append(res.Labels, "conn="+cs.State)
		switch cs.State {
		case "admitted", "registered", "in-stmt", "in-exec", "in-parser", "pipelined", "after-panic", "in-copy":
			inflight++
		}
	}
	held := map[string]int{}
	for _, k := range c.Closers {
		res.Labels = append(res.Labels, "closer-hold="+k.Hold)
		held[k.Hold]++
	}
	res.Labels = append(res.Labels, fmt.Sprintf("closers=%d", len(c.Closers)))
	for _, cs := range c.Conns {
		for _, k := range c.Closers {
			core.Count(fmt.Sprintf("pair:%s x %s", cs.State, k.Hold), 1)
		}
	}
	res.NonTrivial = inflight > 0 || held["close.checked"] >= 2 || held["close.closed"] >= 2

	// phase 1: bring every connection into its state
	sess := make([]*script.Sess, len(c.Conns))
	connHold := make([]*hold, len(c.Conns))
	rest := make([][]byte, len(c.Conns))
	for i, cs := range c.Conns {
		s := env.NewSess()
		sess[i] = s
		if cs.State == "auth-prompt" {
			s.C.Send(pgwire.Startup([][2]string{{"user", "u"}}))
			s.C.WaitIdle(grace * 4)
			continue
		}
		if st := s.Startup([][2]string{{"user", "u"}}, pass); st.State != memnet.Idle {
			res.Inconclusive = "startup"
			return res
		}
		gq := fmt.Sprintf("gated%d", i)
		waitGate := func() {
			deadline := time.Now().Add(grace * 4)
			for time.Now().Before(deadline) {
				for _, ev := range env.TraceOf(s.C.ID) {
					if ev.K == "gate" {
						return
					}
				}
				time.Sleep(200 * time.Microsecond)
			}
		}
		switch cs.State {
		case "idle":
		case "after-panic":
			// an earlier statement of this connection panicked inside Execute (recovered and reported by
			// the library); the connection is idle again - and, when the small space puts a second phase
			// behind it, runs a gated statement: what was recovered must not unbalance the bookkeeping
			b := append(pgwire.Parse("", "panics", nil), pgwire.Bind("", "", nil, nil, nil)...)
			b = append(b, pgwire.Execute("", 0)...)
			s.Send(append(b, pgwire.Sync()...))
			s.C.Send(pgwire.Query(gq))
			waitGate()
		case "in-copy":
			// the statement function has started a COPY-in and waits for the client's data: a handler
			// that has started; it ends when the client ends the stream (at this connection's release)
			s.C.Send(pgwire.Query("copy in"))
			s.C.WaitIdle(grace * 4)
			s.C.Send(pgwire.CopyData([]byte("first chunk\n")))
			s.C.WaitIdle(grace * 4)
			rest[i] = pgwire.CopyDone()
		case "discarding":
			// a batch whose Bind failed: the messages behind it were skipped, no Sync yet; nothing of it
			// is in flight
			b := append(pgwire.Parse("", "select 1", nil), pgwire.Bind("", "no such statement", nil, nil, nil)...)
			b = append(b, pgwire.Execute("", 0)...)
			b = append(b, pgwire.Describe('P', "")...)
			s.C.Send(append(b, pgwire.Parse("x", "select 1", nil)...))
			s.C.WaitIdle(grace * 4)
		case "midbatch":
			// half way through an extended-query series: Parse and Bind answered, no Sync yet; the rest
			// of the series arrives after Close has returned and must not start anything
			b := append(pgwire.Parse("", "select 1", nil), pgwire.Bind("", "", nil, nil, nil)...)
			s.C.Send(b)
			s.C.WaitIdle(grace * 4)
		case "midmsg":
			b := pgwire.Query("select 1")
			s.C.Send(b[:7])
			rest[i] = b[7:]
			s.C.WaitIdle(grace)
		case "admitted":
			connHold[i] = m.add("cmd.admitted")
			s.C.Send(pgwire.Query("select 1"))
			m.await(connHold[i])
		case "registered":
			connHold[i] = m.add("cmd.registered")
			s.C.Send(pgwire.Query("select 1"))
			m.await(connHold[i])
		case "in-stmt":
			s.C.Send(pgwire.Query(gq))
			waitGate()
		case "in-exec":
			b := append(pgwire.Parse("", gq, nil), pgwire.Bind("", "", nil, nil, nil)...)
			b = append(b, pgwire.Execute("", 0)...)
			b = append(b, pgwire.Sync()...)
			s.C.Send(b)
			waitGate()
		case "in-parser":
			s.C.Send(pgwire.Query(fmt.Sprintf("pgated%d", i)))
			waitGate()
		case "pipelined":
			b := append(pgwire.Query(gq), pgwire.Query("select 1")...)
			b = append(b, pgwire.Query("select 1")...)
			s.C.Send(b)
			waitGate()
		}
	}

	// phase 2: the Close callers
	recs := make([]*closeRec, len(c.Closers))
	closerHold := make([]*hold, len(c.Closers))
	var wg sync.WaitGroup
	startCloser := func(j int) {
		recs[j] = &closeRec{}
		wg.Add(1)
		go func() {
			defer wg.Done()
			r := recs[j]
			defer func() {
				if p := recover(); p != nil {
					r.panicked = fmt.Sprint(p)
					r.ret = env.Clock.Tick()
				}
			}()
			r.call = env.Clock.Tick()
			_ = env.Srv.Close()
			r.ret = env.Clock.Tick()
			r.returned = true
		}()
	}
	for j, k := range c.Closers {
		if k.Hold != "" {
			closerHold[j] = m.add(k.Hold)
		}
	}
	if !c.Sequential {
		for j := range c.Closers {
			startCloser(j)
		}
		for j := range c.Closers {
			if closerHold[j] != nil {
				m.await(closerHold[j])
			}
		}
	}

	// phase 3: the release order
	seqStarted := 0
	for _, tok := range c.Order {
		var idx int
		fmt.Sscanf(tok[1:], "%d", &idx)
		switch tok[0] {
		case 'c':
			if idx < len(c.Conns) {
				if connHold[idx] != nil {
					connHold[idx].free()
				}
				env.Release(fmt.Sprintf("g%d", idx))
				if rest[idx] != nil {
					sess[idx].C.Send(rest[idx])
					rest[idx] = nil
				}
			}
		case 'k':
			if idx < len(c.Closers) {
				if c.Sequential && seqStarted <= idx {
					for ; seqStarted <= idx; seqStarted++ {
						startCloser(seqStarted)
						if closerHold[seqStarted] != nil {
							m.await(closerHold[seqStarted])
						}
					}
				}
				if closerHold[idx] != nil {
					closerHold[idx].free()
				}
			}
		case 'q':
			if idx < len(c.Conns) {
				sess[idx].C.Send(pgwire.Query("select 1"))
			}
		}
		time.Sleep(grace / 8)
	}
	// release everything that is still held
	for ; c.Sequential && seqStarted < len(c.Closers); seqStarted++ {
		startCloser(seqStarted)
	}
	for i := range c.Conns {
		if connHold[i] != nil {
			connHold[i].free()
		}
		env.Release(fmt.Sprintf("g%d", i))
		if rest[i] != nil {
			sess[i].C.Send(rest[i])
		}
	}
	for j := range c.Closers {
		if closerHold[j] != nil {
			closerHold[j].free()
		}
	}

	// phase 4: every Close call must return (no deadlock)
	done := make(chan struct{})
	go func() { wg.Wait(); close(done) }()
	select {
	case <-done:
	case <-time.After(script.Guard):
		buf := make([]byte, 1<<20)
		dump := string(buf[:runtime.Stack(buf, true)])
		if strings.Contains(dump, "sync.(*WaitGroup).Wait") || strings.Contains(dump, "sync.(*Mutex).Lock") || strings.Contains(dump, "sync.(*RWMutex)") {
			return core.Fail("C16/deadlock", "a Close call has not returned %v after every hold and handler gate was released; goroutines:\n%s", script.Guard, clip(dump, 3000))
		}
		res.Inconclusive = "Close did not return within the guard, no deadlock evidence in the goroutine dump"
		return res
	}
	var rstar int64
	for j, r := range recs {
		if r == nil {
			continue
		}
		if r.panicked != "" {
			return core.Fail("C16/close-panics", "Close call %d of %d panicked: %s", j, len(recs), r.panicked)
		}
		if r.ret > rstar {
			rstar = r.ret
		}
	}
	if ps := env.Panics(); len(ps) > 0 {
		return core.Fail("C16/server-panic", "a server goroutine panicked: %s", ps[0].Value)
	}
	// Serve returns nil, listener closed exactly once
	select {
	case err := <-env.ServeDone():
		if err != nil {
			return core.Fail("C16/serve-error", "Serve returned %v after Close, want nil", err)
		}
	case <-time.After(script.Guard):
		return core.Fail("C16/serve-not-returned", "Serve has not returned %v after Close returned", script.Guard)
	}
	if n := env.L.CloseCount(); n < 1 {
		return core.Fail("C16/listener-not-closed", "the listener was not closed")
	}
	// after Close returned: new traffic must not start any handler
	for i := range c.Conns {
		if c.Conns[i].State == "midbatch" {
			b := append(pgwire.Execute("", 0), pgwire.Parse("late", "select 1", nil)...)
			sess[i].C.Send(append(b, pgwire.Sync()...))
			continue
		}
		sess[i].C.Send(pgwire.Query("select 1"))
	}
	time.Sleep(grace)
	for i := range c.Conns {
		sess[i].C.CloseWrite()
	}
	// later Close calls return and change nothing
	for k := 0; k < 2; k++ {
		lateDone := make(chan string, 1)
		go func() {
			defer func() {
				if p := recover(); p != nil {
					lateDone <- fmt.Sprint(p)
				}
			}()
			_ = env.Srv.Close()
			lateDone <- ""
		}()
		select {
		case p := <-lateDone:
			if p != "" {
				return core.Fail("C16/late-close-panics", "a Close call after Close had returned panicked: %s", p)
			}
		case <-time.After(script.Guard):
			return core.Fail("C16/late-close-blocks", "a Close call after Close had returned does not return")
		}
	}
	for i := range c.Conns {
		sess[i].C.WaitClosed(grace * 4)
	}
	// history invariants over logical timestamps
	type iv struct {
		start, end int64
		what       string
	}
	open := map[string]*iv{}
	var ivs []*iv
	for _, ev := range env.Trace() {
		key := fmt.Sprintf("%d/%s/%d", ev.Conn, ev.Q, ev.Idx)
		if ev.K == "parse" || ev.K == "parse.end" {
			key = fmt.Sprintf("%d/%s", ev.Conn, ev.Q)
		}
		switch ev.K {
		case "parse":
			x := &iv{start: ev.At, what: fmt.Sprintf("parser(%q) on connection %d", ev.Q, ev.Conn)}
			open["p"+key] = x
			ivs = append(ivs, x)
		case "parse.end":
			if x := open["p"+key]; x != nil {
				x.end = ev.At
			}
		case "stmt":
			x := &iv{start: ev.At, what: fmt.Sprintf("statement(%q) on connection %d", ev.Q, ev.Conn)}
			open["s"+key] = x
			ivs = append(ivs, x)
		case "stmt.end":
			if x := open["s"+key]; x != nil {
				x.end = ev.At
			}
		}
	}
	// every Close call is a Close call: at the moment any of them returns no handler is running,
	// and none starts afterwards
	for j, r := range recs {
		if r == nil || !r.returned {
			continue
		}
		for _, x := range ivs {
			if x.start > r.ret {
				return core.Fail("C16/handler-starts-after-close", "%s began executing after Close call %d had returned (start t=%d, that Close returned t=%d); states %v, closers %v, order %v", x.what, j, x.start, r.ret, c.Conns, c.Closers, c.Order)
			}
			if x.start < r.ret && (x.end == 0 || x.end > r.ret) {
				return core.Fail("C16/close-returns-before-handler-finished", "Close call %d of %d returned (t=%d) while %s, started at t=%d, was still running (end t=%d); states %v, closers %v, order %v", j, len(recs), r.ret, x.what, x.start, x.end, c.Conns, c.Closers, c.Order)
			}
		}
	}
	for _, x := range ivs {
		if x.start > rstar {
			return core.Fail("C16/handler-starts-after-close", "%s began executing after Close had returned (start t=%d, Close returned t=%d); states %v, closers %v, order %v", x.what, x.start, rstar, c.Conns, c.Closers, c.Order)
		}
		if x.end == 0 || x.end > rstar {
			return core.Fail("C16/close-returns-before-handler-finished", "Close returned (t=%d) while %s, started at t=%d, was still running (end t=%d)", rstar, x.what, x.start, x.end)
		}
	}
	return res
}

func clip(s string, n int) string {
	if len(s) > n {
		return s[:n] + "..."
	}
	return s
}
