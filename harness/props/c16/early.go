package c16

import (
	"context"
	"errors"
	"fmt"
	"io"
	"log/slog"
	"sync"
	"time"

	wire "github.com/jeroenrinzema/psql-wire"

	"verif/harness/core"
	"verif/harness/memnet"
	"verif/harness/script"
)

// Early: Close is called before / while Serve is being started.
type Early struct {
	ClosesBefore int  `json:"closes_before"` // Close calls that return before Serve is started
	Concurrent   int  `json:"concurrent"`    // Close calls racing with the start of Serve
	ClosesAfter  int  `json:"closes_after"`
	Dial         bool `json:"dial,omitempty"` // a client dials before Serve starts
	// AcceptErr: Accept fails with an error that is not "listener closed" (descriptor exhaustion):
	// 1 = before Serve is started, 2 = once the accept loop is parked. Serve may return it; Close
	// must still return and release the listener.
	AcceptErr int `json:"accept_err,omitempty"`
}

var quiet = slog.New(slog.NewTextHandler(io.Discard, &slog.HandlerOptions{Level: slog.Level(100)}))

func RunEarly(c Early) (res core.Result) {
	res.NonTrivial = true
	res.Labels = append(res.Labels, fmt.Sprintf("before=%d concurrent=%d after=%d", c.ClosesBefore, c.Concurrent, c.ClosesAfter))
	srv, err := wire.NewServer(func(ctx context.Context, q string) (wire.PreparedStatements, error) { return nil, nil }, wire.Logger(quiet), wire.MessageBufferSize(4096))
	if err != nil {
		return core.Fail("C16/early/new", "%v", err)
	}
	l := memnet.NewListener(nil)
	if c.Dial {
		_, _ = l.Dial()
	}
	acceptErr := errors.New("accept memnet: too many open files")
	if c.AcceptErr == 1 {
		l.FailAccept(acceptErr)
	}
	if c.AcceptErr != 0 {
		res.Labels = append(res.Labels, fmt.Sprintf("accept-error=%d", c.AcceptErr))
	}
	closeOnce := func() string {
		out := make(chan string, 1)
		go func() {
			defer func() {
				if p := recover(); p != nil {
					out <- fmt.Sprint("panic: ", p)
				}
			}()
			_ = srv.Close()
			out <- ""
		}()
		select {
		case s := <-out:
			return s
		case <-time.After(script.Guard):
			return "does not return"
		}
	}
	for i := 0; i < c.ClosesBefore; i++ {
		if d := closeOnce(); d != "" {
			return core.Fail("C16/early/close-before-serve", "Close call %d before Serve was started: %s", i, d)
		}
	}
	serveDone := make(chan error, 1)
	var wg sync.WaitGroup
	results := make([]string, c.Concurrent)
	start := make(chan struct{})
	for i := 0; i < c.Concurrent; i++ {
		wg.Add(1)
		go func(i int) {
			defer wg.Done()
			<-start
			results[i] = closeOnce()
		}(i)
	}
	go func() { <-start; serveDone <- srv.Serve(l) }()
	close(start)
	wg.Wait()
	for i, d := range results {
		if d != "" {
			return core.Fail("C16/early/close-racing-serve", "Close call %d racing with the start of Serve: %s", i, d)
		}
	}
	if c.ClosesBefore+c.Concurrent == 0 && c.AcceptErr != 1 {
		l.WaitAccepting(script.Guard)
	}
	var served bool
	var serveErr error
	if c.AcceptErr == 2 {
		l.FailAccept(acceptErr)
	}
	if c.AcceptErr != 0 && c.ClosesBefore+c.Concurrent == 0 {
		// the accept loop has seen the error: wait until Serve has dealt with it, so that the Close
		// calls below meet a server whose Serve has already returned
		// (returned) or has gone back to accepting (a server may treat the error as temporary)
		deadline := time.Now().Add(script.Guard)
		for !served && !l.Parked() {
			select {
			case serveErr = <-serveDone:
				served = true
			case <-time.After(200 * time.Microsecond):
			}
			if time.Now().After(deadline) {
				return core.Fail("C16/early/serve-stuck-on-accept-error", "Serve neither returned nor went back to accepting after Accept failed with %q", acceptErr)
			}
		}
	}
	for i := 0; i < c.ClosesAfter; i++ {
		if d := closeOnce(); d != "" {
			return core.Fail("C16/early/close-after", "Close call %d after Serve was started: %s", i, d)
		}
	}
	if c.ClosesBefore+c.Concurrent+c.ClosesAfter == 0 {
		if d := closeOnce(); d != "" {
			return core.Fail("C16/early/close-after", "the only Close call: %s", d)
		}
	}
	if served {
		serveDone <- serveErr
	}
	select {
	case err := <-serveDone:
		if err != nil && !(c.AcceptErr != 0 && errors.Is(err, acceptErr)) {
			return core.Fail("C16/early/serve-error", "Serve returned %v, want nil", err)
		}
	case <-time.After(script.Guard):
		return core.Fail("C16/early/serve-not-returned", "Serve did not return although Close was called (before=%d concurrent=%d after=%d)", c.ClosesBefore, c.Concurrent, c.ClosesAfter)
	}
	if n := l.CloseCount(); n < 1 {
		return core.Fail("C16/early/listener-not-closed", "the listener was not closed")
	}
	return res
}
