// Package model is the reference model of the PostgreSQL v3 backend state
// machine (command phase: simple query, extended query, COPY-in), written from
// the protocol documentation and the property statements. It consumes the
// handler table and the client messages of a case and yields, per client
// message, the replies and callback events the server must produce.
package model

import (
	"fmt"
	"strings"

	"verif/harness/pgwire"
	"verif/harness/script"
)

// ExpCol is an expected RowDescription entry.
type ExpCol struct {
	Name   string
	OID    uint32
	Format int16
	Col    script.Col
}

// Exp is one expected backend message.
type Exp struct {
	T       byte
	Tag     string
	Cols    []ExpCol
	Row     []script.Val
	Formats []int16 // resolved per column (D)
	Types   []string
	OIDs    []uint32
	CopyFmt int16
	NCopy   int
	Err     *script.ErrSpec // E: when the content is known
	Why     string          // E: reason (for reports)
	// OptZ marks a ReadyForQuery that may or may not follow (open choice).
	OptZ bool
}

func (e Exp) String() string {
	switch e.T {
	case 'E':
		return "E<" + e.Why + ">"
	case 'C':
		return fmt.Sprintf("C(%q)", e.Tag)
	case 'D':
		return fmt.Sprintf("D(%d fields)", len(e.Row))
	case 'T':
		return fmt.Sprintf("T(%d cols)", len(e.Cols))
	case 't':
		return fmt.Sprintf("t%v", e.OIDs)
	case 'G':
		return fmt.Sprintf("G(%d,%d)", e.CopyFmt, e.NCopy)
	}
	if e.OptZ {
		return "Z?"
	}
	return string(e.T)
}

// ExpEv is one expected callback event.
type ExpEv struct {
	K      string // parse | stmt | op | copy.read | copy.row | terminate
	Q      string
	Idx    int
	Op     int
	OpK    string
	IsErr  bool
	EOF    bool
	Params []*[]byte
	PFmts  []int16
	Data   []byte
	Writ   uint64
	Emits  bool // op: whether bytes are added to the server stream
	Row    []script.Val
}

type mStmt struct {
	q  string
	st script.Stmt
}

type mPortal struct {
	stmt   *mStmt
	params []*[]byte
	pfmts  []int16
	rfmts  []int16
}

// exec is a resumable execution of the statements of one command.
type exec struct {
	q        string
	stmts    []script.Stmt
	si, oi   int
	extended bool
	rfmts    []int16
	params   []*[]byte
	pfmts    []int16
	started  bool

	closed  bool
	written uint64

	inCopy bool
	cs     *script.CopySpec
	reads  int
}

// Model state of one connection.
type Model struct {
	Table   script.Table
	NoParse bool
	// HasTerm: a terminate hook is configured (its call is an expected event of Terminate)
	HasTerm bool
	// StmtCap / PortalCap: bounded user caches (script.Config); 0 = unbounded
	StmtCap, PortalCap int
	stmts              map[string]*mStmt
	portals            map[string]*mPortal
	Discard            bool
	cur                *exec
	Closed             bool
	// SrvClosing: a statement called Server.Close: the command it belongs to still completes (every
	// statement runs, every result is delivered); afterwards the server ends the connection
	SrvClosing bool
	// UnknownPolicy: how an unknown-type message is expected to be answered:
	// "" = open choice (E, then optional Z).
}

func New(t script.Table) *Model {
	return &Model{Table: t, stmts: map[string]*mStmt{}, portals: map[string]*mPortal{}}
}

// Snapshot / Restore: the namespace and the discard flag before a message whose outcome is open
// (script.CMsg.AltFail): if the server refuses the message, nothing it would have defined exists.
func (m *Model) Snapshot() *Model {
	c := *m
	c.stmts = make(map[string]*mStmt, len(m.stmts))
	for k, v := range m.stmts {
		c.stmts[k] = v
	}
	c.portals = make(map[string]*mPortal, len(m.portals))
	for k, v := range m.portals {
		c.portals[k] = v
	}
	return &c
}

func (m *Model) Restore(s *Model) {
	cur := m.cur
	*m = *s
	m.cur = cur
}

// InCopy reports whether a handler is currently consuming COPY messages.
func (m *Model) InCopy() bool { return m.cur != nil && m.cur.inCopy }

// HasStmt / HasPortal expose the namespace (for state-aware generators).
func (m *Model) HasStmt(n string) bool   { _, ok := m.stmts[n]; return ok }
func (m *Model) HasPortal(n string) bool { _, ok := m.portals[n]; return ok }

// PortalStmt returns the query the portal was bound to.
func (m *Model) PortalStmt(n string) (string, bool) {
	p, ok := m.portals[n]
	if !ok {
		return "", false
	}
	return p.stmt.q, true
}
func (m *Model) StmtQuery(n string) (string, bool) {
	s, ok := m.stmts[n]
	if !ok {
		return "", false
	}
	return s.q, true
}

// IsBlank: a query consisting of white space only.
func IsBlank(q string) bool {
	return strings.Trim(q, " \t\n\r\f\v") == ""
}

// ResolveFormat applies the protocol rule for format code lists.
func ResolveFormat(codes []int16, i int) int16 {
	switch len(codes) {
	case 0:
		return 0
	case 1:
		return codes[0]
	}
	if i < len(codes) {
		return codes[i]
	}
	return codes[0]
}

func colsOf(st script.Stmt, fmts []int16) []ExpCol {
	out := make([]ExpCol, len(st.Cols))
	for i, c := range st.Cols {
		out[i] = ExpCol{Name: c.Name, OID: c.Oid(), Format: ResolveFormat(fmts, i), Col: c}
	}
	return out
}

// Step feeds one client message and returns the expected replies and events.
func (m *Model) Step(msg script.CMsg) (out []Exp, evs []ExpEv) {
	if m.Closed {
		return nil, nil
	}
	if m.InCopy() {
		return m.feedCopy(msg)
	}
	if msg.Over {
		// an oversized message is skipped and answered with one ErrorResponse (54000) in any
		// state; whether its own ReadyForQuery follows is an open choice; the state is unchanged
		return []Exp{{T: 'E', Why: "oversized message"}, {T: 'Z', OptZ: true}}, nil
	}
	if m.Discard && msg.K == "X" {
		// Terminate is not skipped: it ends the session in every state
		m.Closed = true
		if !m.HasTerm {
			return nil, nil
		}
		return nil, []ExpEv{{K: "terminate"}}
	}
	if m.Discard {
		if msg.K == "S" {
			m.Discard = false
			return []Exp{{T: 'Z'}}, nil
		}
		return nil, nil
	}
	extErr := func(why string, spec *script.ErrSpec) []Exp {
		m.Discard = true
		return []Exp{{T: 'E', Why: why, Err: spec}}
	}
	switch msg.K {
	case "Q":
		if m.NoParse {
			return []Exp{{T: 'E', Why: "no parser configured"}, {T: 'Z'}}, nil
		}
		if IsBlank(msg.Query) {
			return []Exp{{T: 'I'}, {T: 'Z'}}, nil
		}
		o, ok := m.Table.Lookup(msg.Query)
		evs = append(evs, ExpEv{K: "parse", Q: msg.Query, IsErr: !ok || o.Err != nil})
		if !ok {
			return []Exp{{T: 'E', Why: "parser: unknown query"}, {T: 'Z'}}, evs
		}
		if o.Err != nil {
			return []Exp{{T: 'E', Why: "parser error", Err: o.Err}, {T: 'Z'}}, evs
		}
		if len(o.Stmts) == 0 {
			return []Exp{{T: 'E', Why: "zero statements"}, {T: 'Z'}}, evs
		}
		m.cur = &exec{q: msg.Query, stmts: o.Stmts}
		o2, e2 := m.resume()
		return o2, append(evs, e2...)
	case "P":
		if m.NoParse {
			return extErr("no parser configured", nil), nil
		}
		o, ok := m.Table.Lookup(msg.Query)
		evs = append(evs, ExpEv{K: "parse", Q: msg.Query, IsErr: !ok || o.Err != nil})
		switch {
		case !ok:
			return extErr("parser: unknown query", nil), evs
		case o.Err != nil:
			return extErr("parser error", o.Err), evs
		case len(o.Stmts) != 1:
			return extErr(fmt.Sprintf("%d statements in Parse", len(o.Stmts)), nil), evs
		}
		if _, has := m.stmts[msg.Name]; m.StmtCap > 0 && !has && len(m.stmts) >= m.StmtCap {
			return extErr("the statement cache refused the statement", nil), evs
		}
		m.stmts[msg.Name] = &mStmt{q: msg.Query, st: o.Stmts[0]}
		return []Exp{{T: '1'}}, evs
	case "B":
		s, ok := m.stmts[msg.Name]
		if !ok {
			return extErr("Bind: unknown statement "+msg.Name, nil), nil
		}
		if _, has := m.portals[msg.Portal]; m.PortalCap > 0 && !has && len(m.portals) >= m.PortalCap {
			return extErr("the portal cache refused the portal", nil), nil
		}
		m.portals[msg.Portal] = &mPortal{stmt: s, params: msg.Params, pfmts: msg.PFmts, rfmts: msg.RFmts}
		return []Exp{{T: '2'}}, nil
	case "D":
		if msg.Kind == 'S' {
			s, ok := m.stmts[msg.Name]
			if !ok {
				return extErr("Describe: unknown statement "+msg.Name, nil), nil
			}
			out = append(out, Exp{T: 't', OIDs: declaredOIDs(s)})
			if len(s.st.Cols) == 0 {
				return append(out, Exp{T: 'n'}), nil
			}
			return append(out, Exp{T: 'T', Cols: colsOf(s.st, nil)}), nil
		}
		if msg.Kind == 'P' {
			p, ok := m.portals[msg.Portal]
			if !ok {
				return extErr("Describe: unknown portal "+msg.Portal, nil), nil
			}
			if len(p.stmt.st.Cols) == 0 {
				return []Exp{{T: 'n'}}, nil
			}
			return []Exp{{T: 'T', Cols: colsOf(p.stmt.st, p.rfmts)}}, nil
		}
		return extErr("Describe: unknown kind", nil), nil
	case "E":
		p, ok := m.portals[msg.Portal]
		if !ok {
			return extErr("Execute: unknown portal "+msg.Portal, nil), nil
		}
		m.cur = &exec{q: p.stmt.q, stmts: []script.Stmt{p.stmt.st}, extended: true, rfmts: p.rfmts, params: p.params, pfmts: p.pfmts}
		return m.resume()
	case "C":
		if msg.Kind == 'S' {
			delete(m.stmts, msg.Name)
		} else if msg.Kind == 'P' {
			delete(m.portals, msg.Portal)
		}
		return []Exp{{T: '3'}}, nil
	case "H":
		return nil, nil
	case "S":
		return []Exp{{T: 'Z'}}, nil
	case "X":
		m.Closed = true
		if !m.HasTerm {
			return nil, nil
		}
		return nil, []ExpEv{{K: "terminate"}}
	case "d", "c", "f":
		return nil, nil
	}
	// unknown message type: exactly one ErrorResponse, then an optional Z (open choice)
	return []Exp{{T: 'E', Why: "unknown message type"}, {T: 'Z', OptZ: true}}, nil
}

func declaredOIDs(s *mStmt) []uint32 {
	if s.st.ParseParams {
		return nil // length decided by ParseParameters; compared by count elsewhere
	}
	return append([]uint32{}, s.st.Params...)
}

// finish ends the current command with an error (err != nil) or normally.
func (m *Model) finish(out []Exp, evs []ExpEv, failed bool, why string, spec *script.ErrSpec) ([]Exp, []ExpEv) {
	x := m.cur
	m.cur = nil
	if m.SrvClosing {
		m.Closed = true
	}
	if failed {
		out = append(out, Exp{T: 'E', Why: why, Err: spec})
		if x.extended {
			m.Discard = true
			return out, evs
		}
		return append(out, Exp{T: 'Z'}), evs
	}
	if !x.extended {
		out = append(out, Exp{T: 'Z'})
	}
	return out, evs
}

// resume runs the current command until it blocks in COPY or ends.
func (m *Model) resume() (out []Exp, evs []ExpEv) {
	x := m.cur
	for x.si < len(x.stmts) {
		st := x.stmts[x.si]
		if !x.started {
			x.started = true
			x.closed, x.written = false, 0
			if !x.extended && len(st.Cols) > 0 {
				out = append(out, Exp{T: 'T', Cols: colsOf(st, nil)})
			}
			evs = append(evs, ExpEv{K: "stmt", Q: x.q, Idx: x.si, Params: x.params, PFmts: x.pfmts})
		}
		for x.oi < len(st.Ops) {
			op := st.Ops[x.oi]
			ev := ExpEv{K: "op", Q: x.q, Idx: x.si, Op: x.oi, OpK: op.K}
			x.oi++
			switch op.K {
			case "row":
				bad := len(op.Vals) != len(st.Cols)
				for _, v := range op.Vals {
					if v.Bad {
						bad = true
					}
				}
				if x.closed || bad {
					ev.IsErr = true
				} else {
					x.written++
					ev.Emits = true
					fm := make([]int16, len(st.Cols))
					ty := make([]string, len(st.Cols))
					for i, c := range st.Cols {
						fm[i] = ResolveFormat(x.rfmts, i)
						ty[i] = c.T
					}
					out = append(out, Exp{T: 'D', Row: op.Vals, Formats: fm, Types: ty})
				}
			case "complete":
				if x.closed {
					ev.IsErr = true
				} else {
					x.closed = true
					ev.Emits = true
					out = append(out, Exp{T: 'C', Tag: op.Tag})
				}
			case "empty":
				if x.closed || x.written != 0 {
					ev.IsErr = true
				} else {
					x.closed = true
				}
			case "written", "gate", "cancelsess":
			case "closesrv":
				m.SrvClosing = true
			case "panic":
				ev.Writ = x.written
				evs = append(evs, ev)
				return m.finish(out, evs, true, "statement function panicked", nil)
			case "ret":
				ev.Writ = x.written
				evs = append(evs, ev)
				if op.Err != nil {
					return m.finish(out, evs, true, "statement returned error", op.Err)
				}
				x.oi = len(st.Ops)
				continue
			case "copyin":
				ev.K = "copy.start"
				if x.closed || len(st.Cols) == 0 {
					ev.IsErr = true
					ev.Writ = x.written
					evs = append(evs, ev)
					return m.finish(out, evs, true, "CopyIn refused", nil)
				}
				ev.Emits = true
				ev.Writ = x.written
				evs = append(evs, ev)
				out = append(out, Exp{T: 'G', CopyFmt: op.Copy.Format, NCopy: len(st.Cols)})
				x.cs, x.reads = op.Copy, 0
				if x.cs.MaxReads == 0 {
					if x.cs.StopErr != nil {
						return m.finish(out, evs, true, "handler stopped COPY with error", x.cs.StopErr)
					}
					continue
				}
				x.inCopy = true
				return out, evs
			}
			ev.Writ = x.written
			evs = append(evs, ev)
		}
		x.si++
		x.oi = 0
		x.started = false
	}
	return m.finish(out, evs, false, "", nil)
}

// feedCopy handles one client message while a handler reads a COPY stream
// chunk-wise (CopyReader.Read).
func (m *Model) feedCopy(msg script.CMsg) (out []Exp, evs []ExpEv) {
	x := m.cur
	cs := x.cs
	ev := ExpEv{K: "copy.read", Q: x.q, Idx: x.si, Op: x.reads}
	switch msg.K {
	case "H", "S":
		return nil, nil
	case "d":
		ev.Data = msg.Data
		evs = append(evs, ev)
		x.reads++
		if cs.MaxReads >= 0 && x.reads >= cs.MaxReads {
			x.inCopy = false
			if cs.StopErr != nil {
				return m.finish(nil, evs, true, "handler stopped COPY with error", cs.StopErr)
			}
			o2, e2 := m.resume()
			return o2, append(evs, e2...)
		}
		return nil, evs
	case "c":
		ev.IsErr, ev.EOF = true, true
		evs = append(evs, ev)
		x.inCopy = false
		o2, e2 := m.resume()
		return o2, append(evs, e2...)
	}
	// CopyFail or a foreign message: non-nil, non-EOF error
	ev.IsErr = true
	evs = append(evs, ev)
	x.inCopy = false
	if msg.K == "X" {
		// Terminate inside COPY is a foreign message as far as the reader is concerned
	}
	switch cs.OnAbort {
	case "own":
		return m.finish(nil, evs, true, "COPY aborted, handler returns its own error", cs.Own)
	case "swallow":
		o2, e2 := m.resume()
		return o2, append(evs, e2...)
	}
	return m.finish(nil, evs, true, "COPY aborted, handler propagates", nil)
}

// ---- comparison -----------------------------------------------------------

// MatchMsg compares one expected message with one received message on the
// fields the properties speak about. It returns "" when they agree.
func MatchMsg(e Exp, g pgwire.BMsg) string {
	if e.T != g.Type {
		return fmt.Sprintf("expected %s, got %s", e, g.Brief())
	}
	switch e.T {
	case 'C':
		if g.Tag != e.Tag {
			return fmt.Sprintf("CommandComplete tag %q, want %q", g.Tag, e.Tag)
		}
	case 'Z':
		if g.Status != 'I' {
			return fmt.Sprintf("ReadyForQuery status %q, want 'I'", g.Status)
		}
	case 'T':
		if len(g.Cols) != len(e.Cols) {
			return fmt.Sprintf("RowDescription has %d columns, want %d", len(g.Cols), len(e.Cols))
		}
		for i, c := range e.Cols {
			gc := g.Cols[i]
			if gc.Name != c.Name || gc.OID != c.OID || gc.Format != c.Format {
				return fmt.Sprintf("RowDescription column %d = (%q, oid %d, format %d), want (%q, oid %d, format %d)", i, gc.Name, gc.OID, gc.Format, c.Name, c.OID, c.Format)
			}
			if gc.Table != uint32(c.Col.Table) || gc.AttrNo != uint16(c.Col.AttrNo) || gc.Width != c.Col.Width {
				return fmt.Sprintf("RowDescription column %d attributes (table %d, attrno %d, width %d), want (%d, %d, %d)", i, gc.Table, gc.AttrNo, gc.Width, uint32(c.Col.Table), uint16(c.Col.AttrNo), c.Col.Width)
			}
		}
	case 'D':
		if len(g.Fields) != len(e.Row) {
			return fmt.Sprintf("DataRow has %d fields, want %d", len(g.Fields), len(e.Row))
		}
		for i, v := range e.Row {
			f := g.Fields[i]
			want := v.Canon()
			if want == nil {
				if !f.Null {
					return fmt.Sprintf("DataRow field %d: NULL (%s/%s) sent as a %d-byte value %q", i, v.T, v.Null, len(f.Data), f.Data)
				}
				continue
			}
			if f.Null {
				return fmt.Sprintf("DataRow field %d: value %s sent as NULL", i, pgwire.ValString(want))
			}
			got, err := pgwire.Decode(e.Types[i], e.Formats[i], f.Data)
			if err != nil {
				return fmt.Sprintf("DataRow field %d (%s, format %d) does not decode: %v (payload %q)", i, e.Types[i], e.Formats[i], err, f.Data)
			}
			if !pgwire.ValEqual(want, got) {
				return fmt.Sprintf("DataRow field %d (%s, format %d, rep %s): got %s, want %s (payload %q)", i, e.Types[i], e.Formats[i], v.Rep, pgwire.ValString(got), pgwire.ValString(want), f.Data)
			}
		}
	case 't':
		if e.OIDs != nil || len(g.OIDs) == 0 {
			if len(g.OIDs) != len(e.OIDs) {
				return fmt.Sprintf("ParameterDescription announces %v, want %v", g.OIDs, e.OIDs)
			}
			for i := range e.OIDs {
				if g.OIDs[i] != e.OIDs[i] {
					return fmt.Sprintf("ParameterDescription announces %v, want %v", g.OIDs, e.OIDs)
				}
			}
		}
	case 'G':
		if int16(g.CopyFmt) != e.CopyFmt || len(g.CopyCodes) != e.NCopy {
			return fmt.Sprintf("CopyInResponse (format %d, %d columns), want (format %d, %d columns)", g.CopyFmt, len(g.CopyCodes), e.CopyFmt, e.NCopy)
		}
		for i, c := range g.CopyCodes {
			if c != e.CopyFmt {
				return fmt.Sprintf("CopyInResponse column %d format %d, want %d", i, c, e.CopyFmt)
			}
		}
	}
	return ""
}

// Match compares the replies to one client message. Optional trailing Z
// (OptZ) may be absent.
func Match(exp []Exp, got []pgwire.BMsg) string {
	gi := 0
	for _, e := range exp {
		if e.OptZ {
			if gi < len(got) && got[gi].Type == 'Z' {
				gi++
			}
			continue
		}
		if gi >= len(got) {
			return fmt.Sprintf("missing %s: expected %s, got %v", e, Exps(exp), pgwire.Briefs(got))
		}
		if d := MatchMsg(e, got[gi]); d != "" {
			return fmt.Sprintf("reply %d: %s (expected %s, got %v)", gi, d, Exps(exp), pgwire.Briefs(got))
		}
		gi++
	}
	if gi < len(got) {
		return fmt.Sprintf("surplus reply %s: expected %s, got %v", got[gi].Brief(), Exps(exp), pgwire.Briefs(got))
	}
	return ""
}

func Exps(exp []Exp) string {
	p := make([]string, len(exp))
	for i, e := range exp {
		p[i] = e.String()
	}
	return "[" + strings.Join(p, " ") + "]"
}

// MatchEvents compares the expected callback events of one client message
// with the recorded trace slice (only the event kinds the model predicts).
func MatchEvents(exp []ExpEv, trace []script.Event) string {
	var got []script.Event
	for _, ev := range trace {
		switch ev.K {
		case "parse", "stmt", "op", "copy.start", "copy.read", "terminate":
			got = append(got, ev)
		case "panic":
			return "callback panicked: " + ev.Panic
		}
	}
	brief := func() string {
		var p []string
		for _, g := range got {
			p = append(p, fmt.Sprintf("%s[%d.%d %s err=%v]", g.K, g.Idx, g.Op, g.OpK, g.IsErr))
		}
		var q []string
		for _, e := range exp {
			q = append(q, fmt.Sprintf("%s[%d.%d %s err=%v]", e.K, e.Idx, e.Op, e.OpK, e.IsErr))
		}
		return fmt.Sprintf("expected events %v, got %v", q, p)
	}
	if len(got) != len(exp) {
		return fmt.Sprintf("%d callback events, want %d: %s", len(got), len(exp), brief())
	}
	for i, e := range exp {
		g := got[i]
		if g.K != e.K {
			return fmt.Sprintf("event %d kind %s, want %s: %s", i, g.K, e.K, brief())
		}
		switch e.K {
		case "parse":
			if g.Q != e.Q {
				return fmt.Sprintf("parser called with %q, want %q", g.Q, e.Q)
			}
		case "stmt":
			if g.Q != e.Q || g.Idx != e.Idx {
				return fmt.Sprintf("statement %d of %q ran, want statement %d of %q", g.Idx, g.Q, e.Idx, e.Q)
			}
			if len(g.Params) != len(e.Params) {
				return fmt.Sprintf("statement received %d parameters, want %d", len(g.Params), len(e.Params))
			}
			for j, p := range e.Params {
				o := g.Params[j]
				wantFmt := ResolveFormat(e.PFmts, j)
				if o.Fmt != wantFmt {
					return fmt.Sprintf("parameter %d format %d, want %d", j, o.Fmt, wantFmt)
				}
				if p == nil {
					if !o.Nil {
						return fmt.Sprintf("parameter %d: NULL arrived as %q", j, o.Val)
					}
					continue
				}
				if o.Nil {
					return fmt.Sprintf("parameter %d: value %q arrived as NULL", j, *p)
				}
				if string(o.Val) != string(*p) {
					return fmt.Sprintf("parameter %d: %q, want %q", j, o.Val, *p)
				}
			}
		case "op", "copy.start":
			if g.Idx != e.Idx || g.Op != e.Op || g.OpK != e.OpK {
				return fmt.Sprintf("event %d is op %d.%d %s, want %d.%d %s: %s", i, g.Idx, g.Op, g.OpK, e.Idx, e.Op, e.OpK, brief())
			}
			if g.IsErr != e.IsErr {
				return fmt.Sprintf("op %d.%d %s returned err=%v (%s), want err=%v", g.Idx, g.Op, g.OpK, g.IsErr, g.Err, e.IsErr)
			}
			if g.Written != e.Writ {
				return fmt.Sprintf("after op %d.%d %s Written() = %d, want %d (rows actually delivered)", g.Idx, g.Op, g.OpK, g.Written, e.Writ)
			}
			// only the "emits nothing" direction is checked at the transport: bytes that must appear are
			// compared in the transcript (a server is free to coalesce its output before it waits for input)
			if g.Out0 >= 0 && g.Out1 > g.Out0 && !e.Emits {
				return fmt.Sprintf("op %d.%d %s (err=%v) added %d byte(s) to the server stream, but a failing operation must emit nothing", g.Idx, g.Op, g.OpK, g.IsErr, g.Out1-g.Out0)
			}
		case "copy.read":
			if g.IsErr != e.IsErr || g.EOF != e.EOF {
				return fmt.Sprintf("COPY read %d returned err=%v eof=%v (%s), want err=%v eof=%v", e.Op, g.IsErr, g.EOF, g.Err, e.IsErr, e.EOF)
			}
			if !e.IsErr && string(g.Data) != string(e.Data) {
				return fmt.Sprintf("COPY read %d delivered %q, want %q", e.Op, clip(g.Data), clip(e.Data))
			}
		}
	}
	return ""
}

func clip(b []byte) []byte {
	if len(b) > 64 {
		return append(append([]byte{}, b[:64]...), "..."...)
	}
	return b
}
