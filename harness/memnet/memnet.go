// Package memnet is an in-memory net.Listener / net.Conn pair owned by the
// verification harness. It gives the harness control over read segmentation,
// transport faults, a raw wire tap in both directions and - because the server
// under test is synchronous per connection - an exact "all input processed"
// (quiescence) signal without sleeping.
package memnet

import (
	"errors"
	"fmt"
	"io"
	"net"
	"sync"
	"sync/atomic"
	"time"
)

// Clock hands out logical timestamps shared by the transport and the callback
// trace, so that "before/after" relations are exact and schedule independent.
type Clock struct{ n atomic.Int64 }

func (c *Clock) Tick() int64 { return c.n.Add(1) }
func (c *Clock) Now() int64  { return c.n.Load() }

type addr string

func (a addr) Network() string { return "memnet" }
func (a addr) String() string  { return string(a) }

// Listener is an in-memory net.Listener.
type Listener struct {
	Clock *Clock

	mu        sync.Mutex
	cond      *sync.Cond
	queue     []*Conn
	closed    bool
	acceptErr error
	closes    int
	accepts   int
	nextID    int
	waiting   bool
	acceptAt  []int64
}

func NewListener(clock *Clock) *Listener {
	if clock == nil {
		clock = &Clock{}
	}
	l := &Listener{Clock: clock}
	l.cond = sync.NewCond(&l.mu)
	return l
}

func (l *Listener) Accept() (net.Conn, error) {
	l.mu.Lock()
	defer l.mu.Unlock()
	for len(l.queue) == 0 && !l.closed && l.acceptErr == nil {
		l.waiting = true
		l.cond.Broadcast()
		l.cond.Wait()
	}
	l.waiting = false
	if l.closed {
		return nil, net.ErrClosed
	}
	if l.acceptErr != nil {
		err := l.acceptErr
		l.acceptErr = nil
		return nil, err
	}
	c := l.queue[0]
	l.queue = l.queue[1:]
	l.accepts++
	l.cond.Broadcast()
	return &srvEnd{c}, nil
}

func (l *Listener) Close() error {
	l.mu.Lock()
	defer l.mu.Unlock()
	l.closes++
	if l.closed {
		return net.ErrClosed
	}
	l.closed = true
	l.cond.Broadcast()
	return nil
}

// FailAccept makes the next Accept call (a parked one included) return err, as a
// listener does when the process runs out of descriptors or the interface goes away.
func (l *Listener) FailAccept(err error) {
	l.mu.Lock()
	l.acceptErr = err
	l.cond.Broadcast()
	l.mu.Unlock()
}

// Parked reports whether the accept loop waits in Accept with nothing to hand out.
func (l *Listener) Parked() bool {
	l.mu.Lock()
	defer l.mu.Unlock()
	return l.waiting && len(l.queue) == 0 && l.acceptErr == nil && !l.closed
}

func (l *Listener) Addr() net.Addr { return addr("memnet:listener") }

// CloseCount is the number of times Close was called on the listener.
func (l *Listener) CloseCount() int {
	l.mu.Lock()
	defer l.mu.Unlock()
	return l.closes
}

// Pending is the number of dialled but not yet accepted connections.
func (l *Listener) Pending() int {
	l.mu.Lock()
	defer l.mu.Unlock()
	return len(l.queue)
}

// WaitAccepting blocks until the accept loop is parked in Accept with an empty
// queue (true) or the listener is closed / the guard expires (false).
func (l *Listener) WaitAccepting(guard time.Duration) bool {
	deadline := time.Now().Add(guard)
	tm := time.AfterFunc(guard, func() { l.mu.Lock(); l.cond.Broadcast(); l.mu.Unlock() })
	defer tm.Stop()
	l.mu.Lock()
	defer l.mu.Unlock()
	for {
		if l.closed {
			return false
		}
		if l.waiting && len(l.queue) == 0 {
			return true
		}
		if time.Now().After(deadline) {
			return false
		}
		l.cond.Wait()
	}
}

// NewConn creates a connection that is not yet offered to Accept; use Deliver.
func (l *Listener) NewConn() *Conn {
	l.mu.Lock()
	l.nextID++
	id := l.nextID
	l.mu.Unlock()
	c := &Conn{ID: id, clock: l.Clock}
	c.cond = sync.NewCond(&c.mu)
	c.remote = addr(fmt.Sprintf("memnet:client-%d", id))
	return c
}

// Deliver offers the connection to the accept loop.
func (l *Listener) Deliver(c *Conn) error {
	l.mu.Lock()
	defer l.mu.Unlock()
	if l.closed {
		return net.ErrClosed
	}
	l.queue = append(l.queue, c)
	l.cond.Broadcast()
	return nil
}

// Dial = NewConn + Deliver.
func (l *Listener) Dial() (*Conn, error) {
	c := l.NewConn()
	return c, l.Deliver(c)
}

// Fault describes when the transport starts failing. After the fault fired
// every later Read and Write fails as well.
type Fault struct {
	ReadCall   int    `json:"read_call,omitempty"`   // k-th Read call fails (1-based); 0 = never
	WriteCall  int    `json:"write_call,omitempty"`  // k-th Write call fails (1-based); 0 = never
	ReadBytes  int    `json:"read_bytes,omitempty"`  // fail once this many bytes were read; 0 = never (use with HasReadBytes)
	WriteBytes int    `json:"write_bytes,omitempty"` // fail once this many bytes were written
	HasRB      bool   `json:"has_rb,omitempty"`
	HasWB      bool   `json:"has_wb,omitempty"`
	Kind       string `json:"kind,omitempty"` // "eof" | "closed" | "timeout" | "reset"
}

type timeoutErr struct{}

func (timeoutErr) Error() string   { return "memnet: i/o timeout" }
func (timeoutErr) Timeout() bool   { return true }
func (timeoutErr) Temporary() bool { return false }

func (f *Fault) err() error {
	switch f.Kind {
	case "eof":
		return io.ErrUnexpectedEOF
	case "timeout":
		return &net.OpError{Op: "read", Net: "memnet", Err: timeoutErr{}}
	case "reset":
		return &net.OpError{Op: "read", Net: "memnet", Err: errors.New("connection reset by peer")}
	default:
		return net.ErrClosed
	}
}

// WriteRec is one server Write call.
type WriteRec struct {
	At    int64 // logical timestamp
	InPos int   // client bytes consumed by the server when the write happened
	Data  []byte
}

// State of a connection as seen by WaitIdle.
type State int

const (
	Idle    State = iota // server blocked in Read on an empty queue: all input processed
	Closed               // server closed the connection
	Timeout              // guard expired (server busy elsewhere)
)

func (s State) String() string { return [...]string{"idle", "closed", "timeout"}[s] }

// Conn is one in-memory connection. The methods on Conn are the client /
// harness side; the server side is reached through Accept.
type Conn struct {
	ID     int
	clock  *Clock
	remote addr

	mu   sync.Mutex
	cond *sync.Cond

	rArmed, wArmed     bool // virtual deadlines (see srvEnd.SetDeadline)
	rExpired, wExpired bool
	deadlineCalls      int

	in           []byte // pending client->server bytes
	inLog        []byte // every client byte ever sent (tap)
	consumed     int    // bytes handed to the server so far
	clientClosed bool
	segs         []int
	segIdx       int
	segCycle     bool
	reading      bool

	out     []byte // every server->client byte (tap)
	outRead int    // cursor of the blocking client-side reader
	taken   int    // cursor of Take
	writes  []WriteRec

	srvClosed     bool
	srvClosedAt   int64
	srvCloses     int
	readCalls     int
	writeCalls    int
	written       int
	fault         *Fault
	faulted       bool
	faultedAt     int64
	postClose     int // server writes attempted after it closed the connection
	clientReading bool
	keepWrites    bool
}

// SetSegments installs the read segmentation plan: the i-th server Read
// returns at most segs[i] bytes (entries < 1 count as 1). When cycle is true
// the plan repeats, otherwise reads are unbounded after the plan is used up.
func (c *Conn) SetSegments(segs []int, cycle bool) {
	c.mu.Lock()
	c.segs, c.segIdx, c.segCycle = append([]int(nil), segs...), 0, cycle
	c.mu.Unlock()
}

func (c *Conn) SetFault(f *Fault) {
	c.mu.Lock()
	c.fault = f
	c.mu.Unlock()
}

// KeepWrites makes the connection record every server Write individually.
func (c *Conn) KeepWrites() { c.mu.Lock(); c.keepWrites = true; c.mu.Unlock() }

// Send appends client bytes.
func (c *Conn) Send(b []byte) {
	if len(b) == 0 {
		return
	}
	c.mu.Lock()
	c.in = append(c.in, b...)
	c.inLog = append(c.inLog, b...)
	c.cond.Broadcast()
	c.mu.Unlock()
}

// CloseWrite signals EOF to the server once the pending bytes are consumed.
func (c *Conn) CloseWrite() {
	c.mu.Lock()
	c.clientClosed = true
	c.cond.Broadcast()
	c.mu.Unlock()
}

// Output returns a copy of every byte the server wrote so far.
func (c *Conn) Output() []byte {
	c.mu.Lock()
	defer c.mu.Unlock()
	return append([]byte(nil), c.out...)
}

// OutLen is the number of bytes the server wrote so far.
func (c *Conn) OutLen() int {
	c.mu.Lock()
	defer c.mu.Unlock()
	return len(c.out)
}

// Take returns the server bytes written since the previous Take.
func (c *Conn) Take() []byte {
	c.mu.Lock()
	defer c.mu.Unlock()
	b := append([]byte(nil), c.out[c.taken:]...)
	c.taken = len(c.out)
	return b
}

// Input returns a copy of every byte the client sent so far.
func (c *Conn) Input() []byte {
	c.mu.Lock()
	defer c.mu.Unlock()
	return append([]byte(nil), c.inLog...)
}

func (c *Conn) Writes() []WriteRec {
	c.mu.Lock()
	defer c.mu.Unlock()
	return append([]WriteRec(nil), c.writes...)
}

// Counters returns the number of server Read and Write calls and the bytes
// consumed / written so far.
func (c *Conn) Counters() (reads, writes, consumed, written int) {
	c.mu.Lock()
	defer c.mu.Unlock()
	return c.readCalls, c.writeCalls, c.consumed, c.written
}

func (c *Conn) ServerClosed() (bool, int64) {
	c.mu.Lock()
	defer c.mu.Unlock()
	return c.srvClosed, c.srvClosedAt
}

// ServerCloses is the number of Close calls the server made on this connection.
func (c *Conn) ServerCloses() int {
	c.mu.Lock()
	defer c.mu.Unlock()
	return c.srvCloses
}

func (c *Conn) Faulted() (bool, int64) {
	c.mu.Lock()
	defer c.mu.Unlock()
	return c.faulted, c.faultedAt
}

// PostCloseWrites is the number of writes the server attempted after closing.
func (c *Conn) PostCloseWrites() int {
	c.mu.Lock()
	defer c.mu.Unlock()
	return c.postClose
}

func (c *Conn) RemoteAddr() net.Addr { return c.remote }

// WaitIdle blocks until every byte sent so far has been processed and the
// server waits for more (Idle), the server closed the connection (Closed), or
// the guard expired (Timeout). When the client side has signalled EOF or a
// fault has fired, only Closed ends the wait.
func (c *Conn) WaitIdle(guard time.Duration) State {
	deadline := time.Now().Add(guard)
	tm := time.AfterFunc(guard, func() { c.mu.Lock(); c.cond.Broadcast(); c.mu.Unlock() })
	defer tm.Stop()
	c.mu.Lock()
	defer c.mu.Unlock()
	for {
		if c.srvClosed {
			return Closed
		}
		if c.reading && len(c.in) == 0 && !c.clientClosed && !c.faulted {
			return Idle
		}
		if time.Now().After(deadline) {
			return Timeout
		}
		c.cond.Wait()
	}
}

// WaitClosed waits until the server closed the connection.
func (c *Conn) WaitClosed(guard time.Duration) bool {
	deadline := time.Now().Add(guard)
	tm := time.AfterFunc(guard, func() { c.mu.Lock(); c.cond.Broadcast(); c.mu.Unlock() })
	defer tm.Stop()
	c.mu.Lock()
	defer c.mu.Unlock()
	for !c.srvClosed {
		if time.Now().After(deadline) {
			return false
		}
		c.cond.Wait()
	}
	return true
}

// WaitOutput waits until at least n server bytes exist in total.
func (c *Conn) WaitOutput(n int, guard time.Duration) bool {
	deadline := time.Now().Add(guard)
	tm := time.AfterFunc(guard, func() { c.mu.Lock(); c.cond.Broadcast(); c.mu.Unlock() })
	defer tm.Stop()
	c.mu.Lock()
	defer c.mu.Unlock()
	for len(c.out) < n {
		if c.srvClosed || time.Now().After(deadline) {
			return false
		}
		c.cond.Wait()
	}
	return true
}

// WaitClientDrained waits until the blocking client-side reader (ClientEnd)
// has consumed every server byte and is parked waiting for more, or the
// server closed the connection and everything was consumed.
func (c *Conn) WaitClientDrained(guard time.Duration) bool {
	deadline := time.Now().Add(guard)
	tm := time.AfterFunc(guard, func() { c.mu.Lock(); c.cond.Broadcast(); c.mu.Unlock() })
	defer tm.Stop()
	c.mu.Lock()
	defer c.mu.Unlock()
	for {
		if c.outRead >= len(c.out) && (c.clientReading || c.srvClosed) {
			return true
		}
		if time.Now().After(deadline) {
			return false
		}
		c.cond.Wait()
	}
}

// Reading reports whether the server is currently parked in Read.
func (c *Conn) Reading() bool {
	c.mu.Lock()
	defer c.mu.Unlock()
	return c.reading
}

// ---- server side ----------------------------------------------------------

type srvEnd struct{ c *Conn }

func (s *srvEnd) fire(c *Conn) error {
	if !c.faulted {
		c.faulted = true
		c.faultedAt = c.clock.Tick()
		c.cond.Broadcast()
	}
	return c.fault.err()
}

func (s *srvEnd) Read(p []byte) (int, error) {
	c := s.c
	c.mu.Lock()
	defer c.mu.Unlock()
	if c.srvClosed {
		return 0, net.ErrClosed
	}
	c.readCalls++
	if c.faulted {
		return 0, c.fault.err()
	}
	if f := c.fault; f != nil {
		if f.ReadCall > 0 && c.readCalls >= f.ReadCall {
			return 0, s.fire(c)
		}
		if f.HasRB && c.consumed >= f.ReadBytes {
			return 0, s.fire(c)
		}
	}
	if len(p) == 0 {
		return 0, nil
	}
	if c.rExpired {
		return 0, errDeadline
	}
	for len(c.in) == 0 {
		if c.rExpired {
			c.reading = false
			return 0, errDeadline
		}
		if c.clientClosed {
			return 0, io.EOF
		}
		if c.srvClosed {
			return 0, net.ErrClosed
		}
		c.reading = true
		c.cond.Broadcast()
		c.cond.Wait()
	}
	c.reading = false
	n := len(c.in)
	if n > len(p) {
		n = len(p)
	}
	if c.segIdx < len(c.segs) || (c.segCycle && len(c.segs) > 0) {
		seg := c.segs[c.segIdx%len(c.segs)]
		c.segIdx++
		if seg < 1 {
			seg = 1
		}
		if n > seg {
			n = seg
		}
	}
	if f := c.fault; f != nil && f.HasRB && c.consumed+n > f.ReadBytes {
		n = f.ReadBytes - c.consumed
	}
	copy(p, c.in[:n])
	c.in = c.in[n:]
	c.consumed += n
	return n, nil
}

func (s *srvEnd) Write(p []byte) (int, error) {
	c := s.c
	c.mu.Lock()
	defer c.mu.Unlock()
	if c.srvClosed {
		c.postClose++
		return 0, net.ErrClosed
	}
	c.writeCalls++
	if c.faulted {
		return 0, c.fault.err()
	}
	if c.wExpired {
		return 0, errDeadline
	}
	n := len(p)
	var err error
	if f := c.fault; f != nil {
		if f.WriteCall > 0 && c.writeCalls >= f.WriteCall {
			return 0, s.fire(c)
		}
		if f.HasWB && c.written+n > f.WriteBytes {
			n = f.WriteBytes - c.written
			if n < 0 {
				n = 0
			}
			err = s.fire(c)
		}
	}
	c.out = append(c.out, p[:n]...)
	c.written += n
	if c.keepWrites {
		c.writes = append(c.writes, WriteRec{At: c.clock.Tick(), InPos: c.consumed, Data: append([]byte(nil), p[:n]...)})
	}
	c.cond.Broadcast()
	return n, err
}

func (s *srvEnd) Close() error {
	c := s.c
	c.mu.Lock()
	defer c.mu.Unlock()
	c.srvCloses++
	if c.srvClosed {
		return net.ErrClosed
	}
	c.srvClosed = true
	c.srvClosedAt = c.clock.Tick()
	c.reading = false
	c.cond.Broadcast()
	return nil
}

func (s *srvEnd) LocalAddr() net.Addr  { return addr("memnet:server") }
func (s *srvEnd) RemoteAddr() net.Addr { return s.c.remote }

// Deadlines are virtual: a deadline the server arms (any non-zero time) is remembered, and
// Conn.ElapseDeadlines lets "a long time" pass: every deadline armed at that moment counts as
// expired until the server sets it anew. The wall clock is never consulted.
func (s *srvEnd) SetDeadline(t time.Time) error {
	_ = s.SetReadDeadline(t)
	return s.SetWriteDeadline(t)
}

func (s *srvEnd) SetReadDeadline(t time.Time) error {
	c := s.c
	c.mu.Lock()
	c.rArmed, c.rExpired = !t.IsZero(), false
	c.deadlineCalls++
	c.mu.Unlock()
	return nil
}

func (s *srvEnd) SetWriteDeadline(t time.Time) error {
	c := s.c
	c.mu.Lock()
	c.wArmed, c.wExpired = !t.IsZero(), false
	c.deadlineCalls++
	c.mu.Unlock()
	return nil
}

// ElapseDeadlines lets the deadlines that are armed right now expire (see above); it reports
// which were armed.
func (c *Conn) ElapseDeadlines() (read, write bool) {
	c.mu.Lock()
	defer c.mu.Unlock()
	read, write = c.rArmed, c.wArmed
	c.rExpired, c.wExpired = c.rArmed, c.wArmed
	c.cond.Broadcast()
	return
}

// Deadlines reports which deadlines are armed and how often the server set one.
func (c *Conn) Deadlines() (read, write bool, calls int) {
	c.mu.Lock()
	defer c.mu.Unlock()
	return c.rArmed, c.wArmed, c.deadlineCalls
}

var errDeadline = &net.OpError{Op: "io", Net: "memnet", Err: timeoutErr{}}

// ---- client side as a net.Conn (needed by crypto/tls) -----------------------

// ClientEnd returns a blocking net.Conn view of the client side.
func (c *Conn) ClientEnd() net.Conn { return &cliEnd{c} }

type cliEnd struct{ c *Conn }

func (e *cliEnd) Read(p []byte) (int, error) {
	c := e.c
	c.mu.Lock()
	defer c.mu.Unlock()
	for c.outRead >= len(c.out) {
		if c.srvClosed || c.faulted {
			return 0, io.EOF
		}
		c.clientReading = true
		c.cond.Broadcast()
		c.cond.Wait()
	}
	c.clientReading = false
	n := copy(p, c.out[c.outRead:])
	c.outRead += n
	c.cond.Broadcast()
	return n, nil
}

func (e *cliEnd) Write(p []byte) (int, error) {
	c := e.c
	c.mu.Lock()
	closed := c.srvClosed
	c.mu.Unlock()
	if closed {
		return 0, io.ErrClosedPipe
	}
	c.Send(p)
	return len(p), nil
}

func (e *cliEnd) Close() error                       { e.c.CloseWrite(); return nil }
func (e *cliEnd) LocalAddr() net.Addr                { return e.c.remote }
func (e *cliEnd) RemoteAddr() net.Addr               { return addr("memnet:server") }
func (e *cliEnd) SetDeadline(t time.Time) error      { return nil }
func (e *cliEnd) SetReadDeadline(t time.Time) error  { return nil }
func (e *cliEnd) SetWriteDeadline(t time.Time) error { return nil }
