// Package core is the glue between a property package (generator + oracle)
// and the driver: it runs rapid, keeps measured statistics, journals the
// current case, writes the shrunk failing case as a replay file and prints the
// machine-readable result lines the driver turns into the interface contract.
package core

import (
	"encoding/json"
	"flag"
	"fmt"
	"hash/fnv"
	"os"
	"path/filepath"
	"sort"
	"strconv"
	"strings"
	"sync"
	"testing"

	"pgregory.net/rapid"
)

// Result of evaluating the oracle on one case.
type Result struct {
	Violation    string   // "" = property held on this case
	Sig          string   // stable signature: oracle clause / call site
	Labels       []string // class labels of this case
	NonTrivial   bool     // by the property's stated rule
	Detail       any      // expected / observed, for the replay file
	Inconclusive string   // infrastructure condition (guard expiry ...): neither pass nor fail
}

func Fail(sig, format string, a ...any) Result {
	return Result{Sig: sig, Violation: fmt.Sprintf(format, a...)}
}

type stats struct {
	mu           sync.Mutex
	ID           string              `json:"id"`
	Rule         string              `json:"rule"`
	Evaluations  int                 `json:"evaluations"`
	NonTrivial   int                 `json:"nontrivial"`
	Hashes       map[string]struct{} `json:"-"`
	HashList     []string            `json:"hashes"`
	Labels       map[string]int      `json:"labels"`
	Samples      map[string][]any    `json:"samples"`
	Excluded     map[string]int      `json:"excluded"`
	Inconclusive []string            `json:"inconclusive"`
	Violations   []violation         `json:"violations"`
	Extra        map[string]any      `json:"extra"`
	Exhaustive   map[string]bool     `json:"exhaustive"`
	KnownSeen    map[string]string   `json:"known_seen"`
}

type violation struct {
	Sig    string `json:"sig"`
	Msg    string `json:"msg"`
	Replay string `json:"replay"`
}

var S = &stats{Hashes: map[string]struct{}{}, Labels: map[string]int{}, Samples: map[string][]any{}, Excluded: map[string]int{}, Extra: map[string]any{}, Exhaustive: map[string]bool{}, KnownSeen: map[string]string{}}

var known = map[string]bool{}

// Main is called from TestMain of a property package.
func Main(m *testing.M, id, rule string) {
	S.ID, S.Rule = id, rule
	for _, s := range strings.Split(os.Getenv("VERIF_KNOWN_SIGS"), ",") {
		if s = strings.TrimSpace(s); s != "" {
			known[s] = true
		}
	}
	flag.Parse()
	if d := testdataRapid(); d != "" {
		os.RemoveAll(d)
	}
	code := m.Run()
	dump()
	os.Exit(code)
}

func testdataRapid() string {
	wd, err := os.Getwd()
	if err != nil {
		return ""
	}
	return filepath.Join(wd, "testdata", "rapid")
}

func dump() {
	path := os.Getenv("VERIF_STATS_OUT")
	if path == "" {
		return
	}
	S.mu.Lock()
	defer S.mu.Unlock()
	S.HashList = S.HashList[:0]
	for h := range S.Hashes {
		S.HashList = append(S.HashList, h)
	}
	sort.Strings(S.HashList)
	b, err := json.Marshal(S)
	if err != nil {
		fmt.Fprintf(os.Stderr, "core: cannot marshal stats: %v\n", err)
		return
	}
	_ = os.WriteFile(path, b, 0o644)
}

// Scale returns n scaled by VERIF_CHECKS_MULT (a float, default 1), at least 1.
func Scale(n int) int {
	m := 1.0
	if s := os.Getenv("VERIF_CHECKS_MULT"); s != "" {
		if f, err := strconv.ParseFloat(s, 64); err == nil && f > 0 {
			m = f
		}
	}
	r := int(float64(n) * m)
	if r < 1 {
		r = 1
	}
	return r
}

// Tier is "quick" or "thorough".
func Tier() string {
	if os.Getenv("VERIF_TIER") == "thorough" {
		return "thorough"
	}
	return "quick"
}

// Shard returns (index, count) of this process among the driver's shards.
func Shard() (int, int) {
	i, _ := strconv.Atoi(os.Getenv("VERIF_SHARD"))
	n, _ := strconv.Atoi(os.Getenv("VERIF_SHARDS"))
	if n < 1 {
		n = 1
	}
	return i, n
}

func hashOf(v any) (string, []byte) {
	b, err := MarshalCase(v)
	if err != nil {
		b = []byte(fmt.Sprintf("%#v", v))
	}
	h := fnv.New64a()
	h.Write(b)
	return strconv.FormatUint(h.Sum64(), 16), b
}

// Known reports whether sig is a listed known finding; the caller tolerates
// exactly that clause and the occurrence is counted.
func Known(sig string) bool { return known[sig] }

const maxSamples = 3

// maxHashes bounds the per-process set of distinct-case hashes (the reported distinct count is then a lower bound).
const maxHashes = 300000

// Record accounts one evaluated case.
func Record(sub string, c any, res Result) {
	S.mu.Lock()
	defer S.mu.Unlock()
	S.Evaluations++
	S.Labels[sub+":cases"]++
	for _, l := range res.Labels {
		S.Labels[sub+":"+l]++
	}
	if res.NonTrivial {
		S.NonTrivial++
		if len(S.Hashes) < maxHashes {
			h, _ := hashOf(c)
			S.Hashes[sub+"/"+h] = struct{}{}
		} else {
			S.Labels["distinct-count-capped(lower bound)"]++
		}
	}
	keys := append([]string{}, res.Labels...)
	if res.NonTrivial {
		keys = append(keys, "nontrivial")
	}
	for _, l := range keys {
		k := sub + ":" + l
		if len(S.Samples[k]) < maxSamples && sampleBudget() {
			S.Samples[k] = append(S.Samples[k], c)
		}
	}
	if res.Inconclusive != "" && len(S.Inconclusive) < 20 {
		S.Inconclusive = append(S.Inconclusive, sub+": "+res.Inconclusive)
	}
}

var sampleCount int

func sampleBudget() bool {
	sampleCount++
	return sampleCount <= 60
}

// Count bumps a free-form counter.
func Count(label string, n int) {
	S.mu.Lock()
	S.Labels[label] += n
	S.mu.Unlock()
}

// SetExtra stores a free-form evidence entry.
func SetExtra(k string, v any) {
	S.mu.Lock()
	S.Extra[k] = v
	S.mu.Unlock()
}

// MarkExhaustive states that sub enumerated its finite space completely.
func MarkExhaustive(sub string) {
	S.mu.Lock()
	S.Exhaustive[sub] = true
	S.mu.Unlock()
}

func journal(sub string, c any) {
	path := os.Getenv("VERIF_JOURNAL")
	if path == "" {
		return
	}
	cb, _ := MarshalCase(c)
	b, _ := json.Marshal(map[string]any{"property": S.ID, "sub": sub, "case": json.RawMessage(cb)})
	_ = os.WriteFile(path, b, 0o644)
}

type replayFile struct {
	Property  string          `json:"property"`
	Sub       string          `json:"sub"`
	Sig       string          `json:"sig"`
	Violation string          `json:"violation"`
	Case      json.RawMessage `json:"case"`
	Detail    any             `json:"detail,omitempty"`
}

func writeReplay(sub string, c any, res Result) string {
	dir := os.Getenv("VERIF_REPLAY_DIR")
	if dir == "" {
		dir = os.TempDir()
	}
	_ = os.MkdirAll(dir, 0o755)
	h, cb := hashOf(c)
	sig := strings.NewReplacer("/", "_", " ", "_").Replace(res.Sig)
	path := filepath.Join(dir, fmt.Sprintf("%s-%s-%s.json", sub, sig, h))
	b, _ := json.MarshalIndent(replayFile{Property: S.ID, Sub: sub, Sig: res.Sig, Violation: res.Violation, Case: cb, Detail: res.Detail}, "", " ")
	_ = os.WriteFile(path, b, 0o644)
	return path
}

func report(sub string, c any, res Result) {
	path := writeReplay(sub, c, res)
	S.mu.Lock()
	S.Violations = append(S.Violations, violation{Sig: res.Sig, Msg: res.Violation, Replay: path})
	S.mu.Unlock()
	fmt.Printf("VERIF-VIOLATION property=%s sub=%s sig=%s replay=%s\n", S.ID, sub, res.Sig, path)
	fmt.Printf("VERIF-DETAIL %s\n", strings.ReplaceAll(res.Violation, "\n", " | "))
}

// tolerate handles known findings: returns true when the violation is listed.
func tolerate(sub string, res Result) bool {
	if res.Violation == "" || !known[res.Sig] {
		return false
	}
	S.mu.Lock()
	S.Excluded[res.Sig]++
	if _, ok := S.KnownSeen[res.Sig]; !ok {
		S.KnownSeen[res.Sig] = res.Violation
	}
	S.mu.Unlock()
	return true
}

// RunProp runs gen/run under rapid with `checks` cases (already scaled).
func RunProp[C any](t *testing.T, sub string, checks int, gen func(*rapid.T) C, run func(C) Result) {
	t.Helper()
	_ = flag.Set("rapid.checks", strconv.Itoa(checks))
	_ = flag.Set("rapid.nofailfile", "true")
	var (
		lastCase C
		lastRes  Result
		failed   bool
	)
	defer func() {
		if failed {
			report(sub, lastCase, lastRes)
		}
	}()
	rapid.Check(t, func(rt *rapid.T) {
		c := gen(rt)
		journal(sub, c)
		res := run(c)
		if !failed {
			Record(sub, c, res)
		}
		if tolerate(sub, res) {
			return
		}
		if res.Violation != "" {
			failed, lastCase, lastRes = true, c, res
			rt.Fatalf("[%s] %s", res.Sig, res.Violation)
		}
	})
}

// RunCase evaluates one explicitly constructed case (enumerations, witness
// runs); a violation is reported immediately.
func RunCase[C any](t *testing.T, sub string, c C, run func(C) Result) bool {
	t.Helper()
	journal(sub, c)
	res := run(c)
	Record(sub, c, res)
	if tolerate(sub, res) {
		return true
	}
	if res.Violation != "" {
		report(sub, c, res)
		t.Errorf("[%s] %s", res.Sig, res.Violation)
		return false
	}
	return true
}

// Replay re-runs the case(s) stored in $VERIF_REPLAY (a file, or a directory of
// files = the regression corpus) without the property library.
func Replay[C any](t *testing.T, subs map[string]func(C) Result) {
	path := os.Getenv("VERIF_REPLAY")
	if path == "" {
		t.Skip("VERIF_REPLAY not set")
	}
	files := []string{path}
	if fi, err := os.Stat(path); err == nil && fi.IsDir() {
		files, _ = filepath.Glob(filepath.Join(path, "*.json"))
		sort.Strings(files)
	}
	for _, f := range files {
		b, err := os.ReadFile(f)
		if err != nil {
			t.Fatalf("replay: %v", err)
		}
		var rf replayFile
		if err := json.Unmarshal(b, &rf); err != nil {
			t.Fatalf("replay %s: %v", f, err)
		}
		run, ok := subs[rf.Sub]
		if !ok {
			continue // belongs to another sub-check (case type)
		}
		var c C
		if err := UnmarshalCase(rf.Case, &c); err != nil {
			t.Fatalf("replay %s: case does not decode: %v", f, err)
		}
		res := run(c)
		if tolerate(rf.Sub, res) {
			continue
		}
		if res.Violation != "" {
			fmt.Printf("VERIF-VIOLATION property=%s sub=%s sig=%s replay=%s\n", S.ID, rf.Sub, res.Sig, f)
			fmt.Printf("VERIF-DETAIL %s\n", strings.ReplaceAll(res.Violation, "\n", " | "))
			t.Errorf("[%s] %s", res.Sig, res.Violation)
			continue
		}
		fmt.Printf("VERIF-REPLAY-OK property=%s sub=%s file=%s\n", S.ID, rf.Sub, filepath.Base(f))
	}
}

// ReplaySub returns the sub-check name stored in $VERIF_REPLAY ("" if unset).
func ReplaySub() string {
	b, err := os.ReadFile(os.Getenv("VERIF_REPLAY"))
	if err != nil {
		return ""
	}
	var rf replayFile
	_ = json.Unmarshal(b, &rf)
	return rf.Sub
}

// FuzzCase evaluates one case inside a native fuzz target. The violation
// line is put into the failure message because the coordinator only relays
// the test log of a failing worker.
func FuzzCase[C any](t *testing.T, sub string, c C, run func(C) Result) {
	t.Helper()
	res := run(c)
	if tolerate(sub, res) {
		return
	}
	if res.Inconclusive != "" && os.Getenv("VERIF_FUZZ_STRICT") != "" {
		res.Sig, res.Violation = "inconclusive", res.Inconclusive
		path := writeReplay(sub, c, res)
		t.Fatalf("INCONCLUSIVE %s replay=%s", res.Inconclusive, path)
	}
	if res.Violation != "" {
		path := writeReplay(sub, c, res)
		t.Fatalf("VERIF-VIOLATION property=%s sub=%s sig=%s replay=%s\nVERIF-DETAIL %s", S.ID, sub, res.Sig, path, res.Violation)
	}
}

// RaceMark returns the current size of this process's race report file
// (GORACE log_path); RaceSince returns what the detector reported since then.
func RaceMark() int64 {
	n, _ := raceLog()
	return n
}

func raceLog() (int64, string) {
	for _, kv := range strings.Fields(os.Getenv("GORACE")) {
		if strings.HasPrefix(kv, "log_path=") {
			p := fmt.Sprintf("%s.%d", strings.TrimPrefix(kv, "log_path="), os.Getpid())
			if fi, err := os.Stat(p); err == nil {
				return fi.Size(), p
			}
			return 0, p
		}
	}
	return 0, ""
}

// RaceSince returns the race reports written since mark ("" if none). Only
// meaningful in a -race build started by the driver.
func RaceSince(mark int64) string {
	n, p := raceLog()
	if p == "" || n <= mark {
		return ""
	}
	b, err := os.ReadFile(p)
	if err != nil || int64(len(b)) < mark {
		return ""
	}
	return string(b[mark:])
}

// RaceResult turns a race report into a violation (library frame involved)
// or an inconclusive result (harness-only race).
func RaceResult(res Result, id string, rep string) Result {
	if rep == "" {
		return res
	}
	if strings.Contains(rep, "jeroenrinzema/psql-wire") {
		first := rep
		if len(first) > 2500 {
			first = first[:2500]
		}
		res.Sig, res.Violation = id+"/data-race", "the race detector reports unsynchronised access inside the library:\n"+first
		res.Detail = map[string]any{"race_report": rep}
		return res
	}
	res.Inconclusive = "race report without a psql-wire frame (harness race?): " + rep[:min(len(rep), 600)]
	return res
}

// FuzzProp turns a rapid generator + check into a native fuzz target: the fuzzer's bytes are
// the generator's source of randomness (rapid.MakeFuzz), so coverage guidance steers the same
// structured cases the property test draws at random. Used by the thorough tier only.
func FuzzProp[C any](f *testing.F, sub string, gen func(*rapid.T) C, run func(C) Result) {
	seed := uint64(0x9E3779B97F4A7C15)
	for i := 0; i < 8; i++ {
		b := make([]byte, 2048<<uint(i%5)) // 8 bytes per draw: enough for whole cases
		for j := range b {
			seed ^= seed << 13
			seed ^= seed >> 7
			seed ^= seed << 17
			b[j] = byte(seed)
		}
		f.Add(b)
	}
	f.Fuzz(rapid.MakeFuzz(func(t *rapid.T) {
		c := gen(t)
		res := run(c)
		if tolerate(sub, res) {
			return
		}
		if res.Violation != "" {
			path := writeReplay(sub, c, res)
			t.Fatalf("VERIF-VIOLATION property=%s sub=%s sig=%s replay=%s\nVERIF-DETAIL %s", S.ID, sub, res.Sig, path, res.Violation)
		}
	}))
}
