package core

import (
	"reflect"
	"testing"
)

type inner struct {
	S string
	M map[string][]string
	P *string
	B []byte
	u int
}

func TestCaseRoundTrip(t *testing.T) {
	bad := "caf\xe9\x00\xff"
	x := struct {
		A string
		I []inner
		Y any
	}{A: "plain", I: []inner{{S: bad, M: map[string][]string{bad: {"ok", bad}}, P: &bad, B: []byte{0xff, 0}, u: 3}}}
	b, err := MarshalCase(x)
	if err != nil {
		t.Fatal(err)
	}
	y := x
	y.I = nil
	y.A = ""
	if err := UnmarshalCase(b, &y); err != nil {
		t.Fatal(err)
	}
	y.I[0].u = 3
	if !reflect.DeepEqual(x, y) {
		t.Fatalf("%q\n%#v\n%#v", b, x, y)
	}
	if x.I[0].S != bad {
		t.Fatal("input mutated")
	}
}
