package core

import (
	"encoding/base64"
	"encoding/json"
	"reflect"
	"strings"
	"unicode/utf8"
)

// Cases are stored as JSON (distinctness hashes, journal, replay files), and
// encoding/json silently replaces bytes that are not valid UTF-8. Generated
// strings (query texts, names, parameter values, error texts, tags) must be
// free to contain such bytes, so every string of a case is escaped on the way
// out - U+E000 + base64 when it is not valid UTF-8 (or starts with that
// rune) - and unescaped on the way in. A replayed case is byte-identical to
// the generated one.

const escRune = "\ue000"

func escString(s string) string {
	if utf8.ValidString(s) && !strings.HasPrefix(s, escRune) {
		return s
	}
	return escRune + base64.StdEncoding.EncodeToString([]byte(s))
}

func unescString(s string) string {
	if !strings.HasPrefix(s, escRune) {
		return s
	}
	b, err := base64.StdEncoding.DecodeString(s[len(escRune):])
	if err != nil {
		return s
	}
	return string(b)
}

// mapStrings returns a deep copy of v with f applied to every string (map keys included).
func mapStrings(v reflect.Value, f func(string) string) reflect.Value {
	switch v.Kind() {
	case reflect.String:
		out := reflect.New(v.Type()).Elem()
		out.SetString(f(v.String()))
		return out
	case reflect.Ptr:
		if v.IsNil() {
			return v
		}
		out := reflect.New(v.Type().Elem())
		out.Elem().Set(mapStrings(v.Elem(), f))
		return out
	case reflect.Interface:
		if v.IsNil() {
			return v
		}
		out := reflect.New(v.Type()).Elem()
		out.Set(mapStrings(v.Elem(), f))
		return out
	case reflect.Struct:
		out := reflect.New(v.Type()).Elem()
		out.Set(v) // unexported fields are carried over as they are
		for i := 0; i < v.NumField(); i++ {
			if out.Field(i).CanSet() {
				out.Field(i).Set(mapStrings(v.Field(i), f))
			}
		}
		return out
	case reflect.Slice:
		if v.IsNil() || v.Type().Elem().Kind() == reflect.Uint8 {
			return v
		}
		out := reflect.MakeSlice(v.Type(), v.Len(), v.Len())
		for i := 0; i < v.Len(); i++ {
			out.Index(i).Set(mapStrings(v.Index(i), f))
		}
		return out
	case reflect.Array:
		out := reflect.New(v.Type()).Elem()
		for i := 0; i < v.Len(); i++ {
			out.Index(i).Set(mapStrings(v.Index(i), f))
		}
		return out
	case reflect.Map:
		if v.IsNil() {
			return v
		}
		out := reflect.MakeMapWithSize(v.Type(), v.Len())
		it := v.MapRange()
		for it.Next() {
			out.SetMapIndex(mapStrings(it.Key(), f), mapStrings(it.Value(), f))
		}
		return out
	}
	return v
}

// MarshalCase encodes a case so that every string survives the round trip.
func MarshalCase(c any) ([]byte, error) {
	v := reflect.ValueOf(c)
	if !v.IsValid() {
		return json.Marshal(c)
	}
	return json.Marshal(mapStrings(v, escString).Interface())
}

// UnmarshalCase is the inverse of MarshalCase; c is a pointer.
func UnmarshalCase(b []byte, c any) error {
	if err := json.Unmarshal(b, c); err != nil {
		return err
	}
	p := reflect.ValueOf(c)
	if p.Kind() == reflect.Ptr && !p.IsNil() {
		p.Elem().Set(mapStrings(p.Elem(), unescString))
	}
	return nil
}
