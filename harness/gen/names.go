package gen

import (
	"fmt"
	"hash/adler32"
	"hash/crc32"
	"hash/fnv"
	"strings"

	"pgregory.net/rapid"
)

// Name families: pairs of distinct statement / portal names that an
// implementation could be tempted to treat as one (the protocol compares names
// byte for byte: case, length beyond NAMEDATALEN, trailing blanks, Unicode
// normal form and every hash of the name are irrelevant).
type NamePair struct {
	Family string
	X, Y   string
}

var long63 = strings.Repeat("n", 63)

func collide(h func(string) uint64, prefix string, hexNames bool) (string, string) {
	seen := map[uint64]string{}
	for i := 0; i < 1_500_000; i++ {
		n := fmt.Sprintf("%s%d", prefix, i)
		if hexNames {
			n = fmt.Sprintf("%s%x", prefix, uint32(i)*2654435761)
		}
		k := h(n)
		if o, ok := seen[k]; ok {
			return o, n
		}
		seen[k] = n
	}
	return prefix + "0", prefix + "1"
}

func fnv1a32(s string) uint64 { h := fnv.New32a(); h.Write([]byte(s)); return uint64(h.Sum32()) }
func fnv132(s string) uint64  { h := fnv.New32(); h.Write([]byte(s)); return uint64(h.Sum32()) }
func crc(s string) uint64     { return uint64(crc32.ChecksumIEEE([]byte(s))) }
func adler(s string) uint64   { return uint64(adler32.Checksum([]byte(s))) }
func djb2(s string) uint64 {
	h := uint32(5381)
	for i := 0; i < len(s); i++ {
		h = h*33 + uint32(s[i])
	}
	return uint64(h)
}
func java31(s string) uint64 {
	h := uint32(0)
	for i := 0; i < len(s); i++ {
		h = h*31 + uint32(s[i])
	}
	return uint64(h)
}

var NamePairs = func() []NamePair {
	ps := []NamePair{
		{"plain", "a", "b"},
		{"plain", "a", "b"},
		{"case", "a", "A"},
		{"case", "Stmt_one", "stmt_one"},
		{"63-byte-prefix", long63 + "x", long63 + "y"},
		{"63-byte-prefix", long63, long63 + "y"},
		{"trailing-blank", "a", "a "},
		{"leading-blank", " a", "a"},
		{"unicode-normal-form", "\u00e9", "e\u0301"},
		{"prefix", "a", "aa"},
		{"quote", `"a"`, "a"},
	}
	for _, h := range []struct {
		n string
		f func(string) uint64
	}{{"fnv1a32", fnv1a32}, {"fnv1-32", fnv132}, {"crc32", crc}, {"adler32", adler}, {"djb2", djb2}, {"java31", java31}} {
		for _, hexNames := range []bool{false, true} {
			x, y := collide(h.f, "portal_", hexNames)
			if h.f(x) == h.f(y) {
				ps = append(ps, NamePair{"collide-" + h.n, x, y})
				break
			}
		}
	}
	return ps
}()

// Names draws a family; the returned pools are {"", x, y} (with the unnamed
// statement / portal first).
func Names(t *rapid.T) (family string, pool []string) {
	p := rapid.SampledFrom(NamePairs).Draw(t, "name-family")
	return p.Family, []string{"", p.X, p.Y}
}
