package gen

import (
	"pgregory.net/rapid"
	"strings"

	"verif/harness/pgwire"
	"verif/harness/play"
	"verif/harness/script"
)

// RichOpts selects the ingredients of a rich (model-free) session.
type RichOpts struct {
	Malformed bool // malformation operators on client messages
	Oversized bool // messages whose declared body exceeds the limit
	Copy      bool // statements that start COPY-in
	Auth      bool // sometimes configure clear-text auth
	BigErrs   bool // fully decorated errors
	Helpers   bool // handlers call ParseParameters / Parameter.Scan / the binary COPY row reader
	MaxMsgs   int
}

func richErr(t *rapid.T, o RichOpts) *script.ErrSpec {
	if o.BigErrs && rapid.Bool().Draw(t, "big-err") {
		return ErrSpec(6).Draw(t, "err")
	}
	return SmallErr().Draw(t, "err")
}

func richStmt(t *rapid.T, o RichOpts) script.Stmt {
	st := script.Stmt{}
	nc := rapid.SampledFrom([]int{0, 1, 1, 2, 3, 5, 12}).Draw(t, "ncols")
	if nc > 0 {
		st.Cols = Cols(nc, pgwire.TypeNames).Draw(t, "cols")
	}
	if rapid.IntRange(0, 3).Draw(t, "declare-params") == 0 {
		st.Params = rapid.SliceOfN(rapid.SampledFrom([]uint32{0, 23, 25, 16, 4294967295, 2950}), 0, 5).Draw(t, "params")
	}
	if o.Helpers {
		// handlers use the library's own helpers on client controlled data
		st.ParseParams = rapid.IntRange(0, 2).Draw(t, "parse-params") == 0
		st.ScanAs = rapid.SliceOfN(rapid.SampledFrom([]string{"int4", "text", "bool", "uuid", "timestamp", "float8", "bytea", "_int4", "_text", "_int4", ""}), 0, 4).Draw(t, "scan-as")
	}
	n := rapid.IntRange(0, 8).Draw(t, "nops")
	for i := 0; i < n; i++ {
		switch k := rapid.IntRange(0, 13).Draw(t, "op"); {
		case k <= 4:
			st.Ops = append(st.Ops, script.Op{K: "row", Vals: MaybeBig(t, Row(st.Cols, 20, true).Draw(t, "row"))})
		case k == 5: // wrong arity
			st.Ops = append(st.Ops, script.Op{K: "row", Vals: []script.Val{{T: "text", S: "x"}, {T: "text", S: "y"}}[:rapid.IntRange(0, 2).Draw(t, "arity")]})
		case k == 6 && nc > 0: // abandoned half-way: unencodable value at column k
			vals := Row(st.Cols, 0, false).Draw(t, "row")
			vals[rapid.IntRange(0, nc-1).Draw(t, "bad-at")].Bad = true
			st.Ops = append(st.Ops, script.Op{K: "row", Vals: vals})
		case k == 7:
			st.Ops = append(st.Ops, script.Op{K: "empty"})
		case k <= 9:
			st.Ops = append(st.Ops, script.Op{K: "complete", Tag: CString(300).Draw(t, "tag")})
		case k == 10:
			st.Ops = append(st.Ops, script.Op{K: "written"})
		case k == 11 && o.Copy:
			cs := &script.CopySpec{Format: int16(rapid.IntRange(0, 1).Draw(t, "copy-format")), MaxReads: rapid.SampledFrom([]int{-1, -1, 0, 1, 3}).Draw(t, "max-reads"), OnAbort: rapid.SampledFrom([]string{"propagate", "own", "swallow"}).Draw(t, "on-abort")}
			if cs.OnAbort == "own" {
				cs.Own = richErr(t, o)
			}
			if o.Helpers && cs.Format == 1 {
				cs.Rows = rapid.Bool().Draw(t, "binary-row-reader")
			}
			st.Ops = append(st.Ops, script.Op{K: "copyin", Copy: cs})
		case k == 12:
			op := script.Op{K: "ret"}
			if rapid.Bool().Draw(t, "ret-err") {
				op.Err = richErr(t, o)
			}
			st.Ops = append(st.Ops, op)
		}
	}
	return st
}

// RichTable builds a handler table over QueryNames.
func RichTable(t *rapid.T, o RichOpts) script.Table {
	tb := script.Table{Q: map[string]script.Outcome{}}
	for _, k := range QueryNames {
		switch rapid.IntRange(0, 7).Draw(t, "outcome") {
		case 0:
			tb.Q[k] = script.Outcome{Err: richErr(t, o)}
		case 1:
			tb.Q[k] = script.Outcome{}
		case 2:
			tb.Q[k] = script.Outcome{Stmts: []script.Stmt{richStmt(t, o), richStmt(t, o)}}
		default:
			tb.Q[k] = script.Outcome{Stmts: []script.Stmt{richStmt(t, o)}}
		}
	}
	def := script.Outcome{Stmts: []script.Stmt{richStmt(t, o)}}
	tb.Def = &def
	return tb
}

var sqlPieces = []string{"select ", "$1", "$2", "$", "$$", "$tag$", "?", "'", "''", "\"", "/*", "*/", "/", "*", "--", "-", "\n", "E'", "\\", "\\'", " ", "a", "$0", "$65536", "$99999999999999999999", ";", "(", ")", "/* /* */", "'$1'", "\"$2\"", "-- $3\n", "/* $4 */", "\xff", "１", "$１", "$1２"}

var richStmtNames = []string{"", "a", "b", "zz"}
var richPortalNames = []string{"", "p", "q", "zz"}

// Malform applies one malformation operator to a well-formed typed frame.
func Malform(t *rapid.T, frame []byte) []byte {
	body := frame[5:]
	switch rapid.IntRange(0, 9).Draw(t, "malform") {
	case 8: // a 32-bit word somewhere in the body replaced by a hostile value (value lengths, counts, OIDs)
		if len(body) >= 4 {
			b := append([]byte{}, body...)
			at := rapid.IntRange(0, len(b)-4).Draw(t, "word-at")
			v := rapid.SampledFrom([]uint32{0x80000000, 0x80000001, 0xFFFFFFFE, 0x7FFFFFFF, 0xFFFFFF00, 0x00010000}).Draw(t, "word")
			b[at], b[at+1], b[at+2], b[at+3] = byte(v>>24), byte(v>>16), byte(v>>8), byte(v)
			return pgwire.Msg(frame[0], b)
		}
	case 9: // Bind: the length word of the first parameter value
		if frame[0] == 'B' {
			b := append([]byte{}, body...)
			// portal\0 statement\0 int16 nformats, formats, int16 nparams, int32 length ...
			i := 0
			for k := 0; k < 2 && i < len(b); k++ {
				for i < len(b) && b[i] != 0 {
					i++
				}
				i++
			}
			if i+2 <= len(b) {
				nf := int(b[i])<<8 | int(b[i+1])
				i += 2 + 2*nf
				if i+2 <= len(b) && (int(b[i])<<8|int(b[i+1])) > 0 && i+6 <= len(b) {
					i += 2
					v := rapid.SampledFrom([]uint32{0x80000000, 0x80000004, 0xFFFFFFFE, 0x7FFFFFFF, 0xFFFFFFF0}).Draw(t, "param-len")
					b[i], b[i+1], b[i+2], b[i+3] = byte(v>>24), byte(v>>16), byte(v>>8), byte(v)
					return pgwire.Msg(frame[0], b)
				}
			}
		}
	case 0: // declared length shorter than the body
		if len(body) > 0 {
			k := rapid.IntRange(1, len(body)).Draw(t, "short-by")
			return pgwire.RawFrame(frame[0], uint32(4+len(body)-k), body)
		}
	case 1: // declared length longer than the body (the rest is taken from what follows)
		return pgwire.RawFrame(frame[0], uint32(4+len(body)+rapid.IntRange(1, 9).Draw(t, "long-by")), body)
	case 2: // truncated body with a matching length
		if len(body) > 0 {
			return pgwire.Msg(frame[0], body[:rapid.IntRange(0, len(body)-1).Draw(t, "cut")])
		}
	case 3: // NUL bytes replaced
		b := append([]byte{}, body...)
		for i := range b {
			if b[i] == 0 {
				b[i] = 'N'
			}
		}
		return pgwire.Msg(frame[0], b)
	case 4: // surplus trailing bytes inside the frame
		return pgwire.Msg(frame[0], append(append([]byte{}, body...), rapid.SliceOfN(rapid.Byte(), 1, 12).Draw(t, "surplus")...))
	case 5: // counts larger than the items present
		b := append([]byte{}, body...)
		for i := 0; i+1 < len(b); i++ {
			if b[i] == 0 && b[i+1] <= 3 && rapid.Bool().Draw(t, "bump") {
				b[i], b[i+1] = 0xff, 0xff
				break
			}
		}
		return pgwire.Msg(frame[0], b)
	case 6: // length word below the minimum
		return pgwire.RawFrame(frame[0], uint32(rapid.IntRange(0, 3).Draw(t, "len-word")), body)
	}
	// unknown type byte
	return pgwire.Msg(rapid.SampledFrom([]byte{'Y', 'z', 0, 0xff, 'R', 'T'}).Draw(t, "type"), body)
}

// Rich generates a server configuration, a handler table and a client message
// list mixing simple, extended, COPY, oversized, unknown and malformed
// messages. No reference model is implied.
func Rich(t *rapid.T, o RichOpts) play.History {
	h := play.History{}
	h.Cfg.Table = RichTable(t, o)
	h.Cfg.SetLimit = true
	h.Cfg.Limit = rapid.SampledFrom([]int{512, 2048, 4096, 8192, 1 << 16}).Draw(t, "limit")
	if rapid.IntRange(0, 3).Draw(t, "params?") == 0 {
		h.Cfg.Params = map[string]string{"application": CString(80).Draw(t, "pv"), "k2": "v2"}
	}
	if rapid.Bool().Draw(t, "version?") {
		h.Cfg.Version = "16.1"
	}
	h.Cfg.OptSeed = rapid.IntRange(0, 1000).Draw(t, "option-order")
	h.Cfg.CustomCaches = rapid.IntRange(0, 3).Draw(t, "custom-caches") == 2
	if o.Auth && rapid.IntRange(0, 3).Draw(t, "auth?") == 0 {
		h.Cfg.Auth = &script.AuthSpec{User: "u", Pass: "pw"}
	}
	max := o.MaxMsgs
	if max == 0 {
		max = 25
	}
	n := rapid.IntRange(1, max).Draw(t, "nmsgs")
	q := func() string {
		if o.Helpers && rapid.IntRange(0, 5).Draw(t, "sql-ish-text?") == 0 {
			// client controlled text that reaches ParseParameters through the default outcome: pieces
			// of SQL lexical structure (quotes, comments, dollar signs, placeholders) in any order,
			// terminated or not
			var sb strings.Builder
			for i, n := 0, rapid.IntRange(1, 8).Draw(t, "sql-pieces"); i < n; i++ {
				sb.WriteString(rapid.SampledFrom(sqlPieces).Draw(t, "sql-piece"))
			}
			if rapid.IntRange(0, 2).Draw(t, "open-at-end?") == 0 {
				// a construct that is opened and never closed, the text ending right inside it
				sb.WriteString(rapid.SampledFrom([]string{"/*", "/* *", "/*/", "/* /* */ *", "'", "' '' ", "\"", "--", "$tag$ $1", "E'\\", "$"}).Draw(t, "open-tail"))
			}
			return sb.String()
		}
		return rapid.SampledFrom(QueryNames).Draw(t, "query")
	}
	params := func() []*[]byte {
		var ps []*[]byte
		for i, k := 0, rapid.IntRange(0, 3).Draw(t, "nparams"); i < k; i++ {
			if rapid.IntRange(0, 4).Draw(t, "null-param") == 0 {
				ps = append(ps, nil)
				continue
			}
			v := rapid.SliceOfN(rapid.Byte(), 0, 12).Draw(t, "param")
			if o.Helpers && rapid.Bool().Draw(t, "array-literal") {
				v = []byte(rapid.SampledFrom([]string{"{1,2,3}", "{}", "{a,b}", "{NULL,7}", "1", "t"}).Draw(t, "literal"))
			}
			if v == nil {
				v = []byte{}
			}
			ps = append(ps, &v)
		}
		return ps
	}
	fm := func() []int16 {
		return rapid.SliceOfN(rapid.SampledFrom([]int16{0, 1}), 0, 3).Draw(t, "fmts")
	}
	for i := 0; i < n; i++ {
		var m script.CMsg
		switch k := rapid.IntRange(0, 24).Draw(t, "msg"); {
		case k <= 4:
			m = script.CMsg{K: "Q", Query: q()}
			if rapid.IntRange(0, 9).Draw(t, "blank?") == 0 {
				m.Query = rapid.SampledFrom([]string{"", " ", "\n"}).Draw(t, "blank")
			}
		case k <= 7:
			m = script.CMsg{K: "P", Name: rapid.SampledFrom(richStmtNames).Draw(t, "stmt"), Query: q(), OIDs: rapid.SliceOfN(rapid.Uint32(), 0, 3).Draw(t, "oids")}
		case k <= 10:
			m = script.CMsg{K: "B", Portal: rapid.SampledFrom(richPortalNames).Draw(t, "portal"), Name: rapid.SampledFrom(richStmtNames).Draw(t, "stmt"), Params: params(), PFmts: fm(), RFmts: fm()}
		case k == 12 && rapid.Bool().Draw(t, "describe-twice"):
			// the same Describe twice in a row (drivers describe a named statement before every execution)
			m = script.CMsg{K: "D", Kind: rapid.SampledFrom([]byte{'S', 'S', 'P'}).Draw(t, "kind"), Name: rapid.SampledFrom(richStmtNames).Draw(t, "stmt"), Portal: rapid.SampledFrom(richPortalNames).Draw(t, "portal")}
			h.Msgs = append(h.Msgs, m, script.CMsg{K: "S"})
		case k <= 12:
			m = script.CMsg{K: "D", Kind: rapid.SampledFrom([]byte{'S', 'P', 'S', 'P', 'X', 0}).Draw(t, "kind"), Name: rapid.SampledFrom(richStmtNames).Draw(t, "stmt"), Portal: rapid.SampledFrom(richPortalNames).Draw(t, "portal")}
		case k <= 15:
			m = script.CMsg{K: "E", Portal: rapid.SampledFrom(richPortalNames).Draw(t, "portal"), Limit: rapid.SampledFrom([]uint32{0, 0, 1, 4294967295}).Draw(t, "limit")}
		case k == 16:
			m = script.CMsg{K: "C", Kind: rapid.SampledFrom([]byte{'S', 'P'}).Draw(t, "kind"), Name: rapid.SampledFrom(richStmtNames).Draw(t, "stmt"), Portal: rapid.SampledFrom(richPortalNames).Draw(t, "portal")}
		case k == 17 && rapid.IntRange(0, 3).Draw(t, "terminate?") == 0:
			m = script.CMsg{K: "X"} // what follows is sent all the same
		case k == 17:
			m = script.CMsg{K: "H"}
		case k <= 19:
			m = script.CMsg{K: "S"}
		case k == 20:
			m = script.CMsg{K: "d", Data: rapid.SliceOfN(rapid.Byte(), 0, 40).Draw(t, "copydata")}
			if o.Helpers && rapid.Bool().Draw(t, "binary-row") {
				// a structurally valid binary COPY row whose field count rarely matches the table:
				// the row reader must reject it, never index out of range
				var b []byte
				if rapid.Bool().Draw(t, "with-header") {
					b = append(b, "PGCOPY\n\377\r\n\x00\x00\x00\x00\x00\x00\x00\x00\x00"...)
				}
				nf := rapid.SampledFrom([]int{0, 1, 2, 3, 4, 6, 13, 14, 0xFFFF, 0xFFFF}).Draw(t, "nfields")
				if nf == 0xFFFF {
					// the end-of-data trailer; what the transport does behind it is the fault plan's business
					b = append(b, 0xff, 0xff)
					nf = 0
					m.Data = b
					h.Msgs = append(h.Msgs, m)
					continue
				}
				b = append(b, byte(nf>>8), byte(nf))
				for f := 0; f < nf; f++ {
					if rapid.Bool().Draw(t, "null-field") {
						b = append(b, 0xff, 0xff, 0xff, 0xff)
					} else {
						v := rapid.SampledFrom([]string{"", "1", "\x00\x00\x00\x07", "t", "abc"}).Draw(t, "field")
						b = append(b, 0, 0, 0, byte(len(v)))
						b = append(b, v...)
					}
				}
				m.Data = b
			}
		case k == 21:
			m = script.CMsg{K: rapid.SampledFrom([]string{"c", "f"}).Draw(t, "copy-end"), Data: []byte("why")}
		case k == 22 && o.Oversized:
			body := make([]byte, h.Cfg.Limit+rapid.IntRange(1, 600).Draw(t, "over"))
			for j := range body {
				body[j] = byte('a' + j%26)
			}
			m = script.CMsg{K: "raw", Over: true, Data: pgwire.Msg(rapid.SampledFrom([]byte{'Q', 'P', 'B', 'd', 'Y', 'S'}).Draw(t, "over-type"), body)}
		case k == 24 && h.Cfg.Limit > 4200:
			// an accepted message whose body is as large as / larger than the blocks a reader
			// plausibly works with (4 KiB pages, the limit itself), possibly followed at once by
			// an oversized one: what is left of a block after such a message is 0 bytes
			sizes := []int{4091, 4092, 4095, 4096, 4097, 5000, 8187, 8188, 8192, h.Cfg.Limit / 2, h.Cfg.Limit - 4, h.Cfg.Limit - 5}
			sz := rapid.SampledFrom(sizes).Draw(t, "large-body")
			if sz > h.Cfg.Limit-4 {
				sz = h.Cfg.Limit - 4
			}
			qt := q()
			if sz-1 > len(qt) {
				qt += strings.Repeat(" ", sz-1-len(qt))
			}
			m = script.CMsg{K: "Q", Query: qt}
			if rapid.Bool().Draw(t, "large-as-copydata") {
				m = script.CMsg{K: "d", Data: []byte(qt)}
			}
			if o.Oversized && rapid.Bool().Draw(t, "oversized-next") {
				h.Msgs = append(h.Msgs, m)
				if rapid.Bool().Draw(t, "sync-between") {
					h.Msgs = append(h.Msgs, script.CMsg{K: "S"})
				}
				body := make([]byte, h.Cfg.Limit+rapid.IntRange(1, 600).Draw(t, "over"))
				m = script.CMsg{K: "raw", Over: true, Data: pgwire.Msg(rapid.SampledFrom([]byte{'Q', 'P', 'B', 'd'}).Draw(t, "over-type"), body)}
			}
		case k == 23 && o.Malformed && rapid.IntRange(0, 3).Draw(t, "hostile-bind?") == 0:
			// a Bind whose first parameter declares a hostile length (sign bit set, just below 2^32, far
			// beyond the message), everything else well formed
			v := []byte("value")
			frame := script.CMsg{K: "B", Portal: rapid.SampledFrom(richPortalNames).Draw(t, "portal"), Name: rapid.SampledFrom(richStmtNames).Draw(t, "stmt"), Params: []*[]byte{&v}}.Bytes()
			body := append([]byte{}, frame[5:]...)
			at := len(body) - 2 - len(v) - 4 // ... int32 length, value, int16 nresultformats
			w := rapid.SampledFrom([]uint32{0x80000000, 0x80000004, 0xFFFFFFFE, 0x7FFFFFFF, 0xFFFFFFF0, 6, 4}).Draw(t, "param-len")
			body[at], body[at+1], body[at+2], body[at+3] = byte(w>>24), byte(w>>16), byte(w>>8), byte(w)
			m = script.CMsg{K: "raw", Data: pgwire.Msg('B', body)}
		case k == 23 && o.Malformed:
			base := script.CMsg{K: rapid.SampledFrom([]string{"Q", "P", "B", "D", "E", "C"}).Draw(t, "mal-kind"), Query: q(), Name: "a", Portal: "p", Kind: 'S', Params: params()}
			m = script.CMsg{K: "raw", Data: Malform(t, base.Bytes())}
		default:
			m = script.CMsg{K: "Q", Query: q()}
		}
		h.Msgs = append(h.Msgs, m)
	}
	return h
}
