package gen

import "testing"

func TestNamePairs(t *testing.T) {
	for _, p := range NamePairs {
		if p.X == p.Y {
			t.Fatalf("%v", p)
		}
	}
	if x, y := collide(fnv1a32, "portal_", false); fnv1a32(x) != fnv1a32(y) || x == y {
		t.Fatal(x, y)
	}
	t.Log(NamePairs)
}
