// Package gen holds rapid generators shared by the property packages. All
// randomness comes from rapid so that cases shrink and replay.
package gen

import (
	"math"
	"strings"

	"pgregory.net/rapid"

	"verif/harness/pgwire"
	"verif/harness/script"
)

var cstrPieces = []string{"a", "b", "x", "select", " ", "%", "%s", "%d", "%w", "é", "日本", "\t", "\n", "'", "\"", "\\", "$1", "?", ";", "\x01", "\x7f", "ÿ", "\xff", "\xe9", "\xc3", "\xf0\x9f", "Z", "E", "S\x01", "0", "-1"}

// CString generates a string without NUL bytes, biased to small but
// occasionally long and "interesting" contents.
func CString(maxLen int) *rapid.Generator[string] {
	return rapid.Custom(func(t *rapid.T) string {
		switch rapid.IntRange(0, 9).Draw(t, "cstr-kind") {
		case 0:
			return ""
		case 1, 2, 3:
			return rapid.StringMatching(`[a-z_]{1,8}`).Draw(t, "word")
		case 4:
			n := rapid.IntRange(1, maxLen).Draw(t, "long")
			return clean(strings.Repeat(rapid.SampledFrom([]string{"x", "ab", "é"}).Draw(t, "unit"), n)[:n])
		case 5:
			s := rapid.String().Draw(t, "any")
			s = strings.ReplaceAll(s, "\x00", "")
			if len(s) > maxLen {
				s = s[:maxLen]
			}
			return clean(s)
		}
		var sb strings.Builder
		n := rapid.IntRange(1, 6).Draw(t, "pieces")
		for i := 0; i < n; i++ {
			sb.WriteString(rapid.SampledFrom(cstrPieces).Draw(t, "piece"))
		}
		s := sb.String()
		if len(s) > maxLen {
			s = s[:maxLen]
		}
		return clean(s)
	})
}

// clean keeps generated strings NUL free (they travel as C strings). They need not be valid UTF-8:
// core.MarshalCase escapes such strings so that a case survives its JSON round trip unchanged.
func clean(s string) string {
	return strings.ReplaceAll(s, "\x00", "")
}

// NonEmptyCString is CString without the empty string.
func NonEmptyCString(maxLen int) *rapid.Generator[string] {
	return rapid.Custom(func(t *rapid.T) string {
		s := CString(maxLen).Draw(t, "s")
		if s == "" {
			return "k"
		}
		return s
	})
}

var someCodes = []string{"XXUUU", "XX000", "", "42", "XX", "P0001X", "00000", "01000", "0A000", "22012", "23505", "28P01", "28000", "42601", "42P01", "54000", "57014", "58000", "XX000", "XX001", "P0001", "08003", "26000"}
var Severities = []string{"ERROR", "FATAL", "PANIC", "WARNING", "NOTICE", "DEBUG", "INFO", "LOG"}
var lineBounds = []int32{0, 1, 2, 9, 10, 255, 256, 257, 258, 65535, 65536, 16777216, math.MaxInt32, math.MaxInt32 - 1, -1, -256, math.MinInt32, 0x00010001, 0x01000000, 0x00000100}

// Layer generates one error decoration.
func Layer() *rapid.Generator[script.Layer] {
	return rapid.Custom(func(t *rapid.T) script.Layer {
		k := rapid.SampledFrom([]string{"code", "severity", "hint", "detail", "source", "constraint", "wrap", "tail"}).Draw(t, "layer")
		l := script.Layer{K: k}
		switch k {
		case "code":
			if rapid.IntRange(0, 3).Draw(t, "code-kind") == 0 {
				l.S = rapid.StringMatching(`[0-9A-Z]{5}`).Draw(t, "code")
			} else {
				l.S = rapid.SampledFrom(someCodes).Draw(t, "code")
			}
		case "severity":
			l.S = rapid.SampledFrom(Severities).Draw(t, "severity")
		case "hint", "detail", "constraint":
			l.S = NonEmptyCString(200).Draw(t, "text")
		case "source":
			l.File = CString(60).Draw(t, "file")
			l.Func = CString(60).Draw(t, "func")
			if rapid.Bool().Draw(t, "line-bound") {
				l.Line = rapid.SampledFrom(lineBounds).Draw(t, "line")
			} else {
				l.Line = rapid.Int32().Draw(t, "line")
			}
		}
		return l
	})
}

// ErrSpec generates a decorated error with up to maxLayers layers.
func ErrSpec(maxLayers int) *rapid.Generator[*script.ErrSpec] {
	return rapid.Custom(func(t *rapid.T) *script.ErrSpec {
		e := &script.ErrSpec{Base: CString(1000).Draw(t, "base")}
		e.Layers = rapid.SliceOfN(Layer(), 0, maxLayers).Draw(t, "layers")
		e.Wraps = wraps(t)
		return e
	})
}

// wraps: now and then the base error wraps a sentinel that transport code also uses.
func wraps(t *rapid.T) string {
	return rapid.SampledFrom([]string{"", "", "", "", "", "eof", "unexpected-eof", "closed", "canceled", "deadline"}).Draw(t, "wraps")
}

// SmallErr generates a lightly decorated error (used where the error content
// is not the point).
func SmallErr() *rapid.Generator[*script.ErrSpec] {
	return rapid.Custom(func(t *rapid.T) *script.ErrSpec {
		e := &script.ErrSpec{Base: rapid.StringMatching(`[a-z ]{1,12}`).Draw(t, "base")}
		if rapid.Bool().Draw(t, "coded") {
			e.Layers = append(e.Layers, script.Layer{K: "code", S: rapid.SampledFrom(someCodes).Draw(t, "code")})
		}
		if rapid.IntRange(0, 3).Draw(t, "sev") == 0 {
			e.Layers = append(e.Layers, script.Layer{K: "severity", S: rapid.SampledFrom(Severities).Draw(t, "severity")})
		}
		e.Wraps = wraps(t)
		return e
	})
}

var i64Bounds = []int64{0, 1, -1, 2, 9, 10, 127, 128, 255, 256, 32767, -32768, 32768, 65535, 65536, math.MaxInt32, math.MinInt32, math.MaxInt32 + 1, math.MaxInt64, math.MinInt64, math.MaxInt64 - 1}

var f64Bounds = []float64{0, math.Copysign(0, -1), 1, -1, 0.1, 1.5, math.NaN(), math.Inf(1), math.Inf(-1), math.MaxFloat64, -math.MaxFloat64, math.SmallestNonzeroFloat64, 1e-310, 1e21, 1e20, 123456789.125, 1e-7, float64(math.MaxFloat32), float64(math.SmallestNonzeroFloat32), 3.4028235e38, 1 << 53, (1 << 53) + 1}

func clampInt(typ string, v int64) int64 {
	switch typ {
	case "int2":
		return int64(int16(v))
	case "int4":
		return int64(int32(v))
	case "oid":
		return int64(uint32(v))
	}
	return v
}

// Val generates a value of the given type. nullMode: 0 = never NULL,
// 1 = sometimes NULL (all three Go spellings), reps: draw Go representations.
func Val(typ string, nullPct int, reps bool) *rapid.Generator[script.Val] {
	return rapid.Custom(func(t *rapid.T) script.Val {
		v := script.Val{T: typ, Rep: "native"}
		if reps {
			opts := []string{"native", "ptr", "pgtype"}
			if typ == "int2" || typ == "int4" || typ == "int8" {
				opts = append(opts, "int")
			}
			if typ == "json" || typ == "jsonb" {
				// pgx marshals anything but string/[]byte for a json column (a *string or a
				// pgtype.Text becomes a JSON document, a nil pointer the JSON value null):
				// what a handler means by those is not settled by the property - not generated
				opts = []string{"native"}
			}
			v.Rep = rapid.SampledFrom(opts).Draw(t, "rep")
		}
		if nullPct > 0 && rapid.IntRange(1, 100).Draw(t, "null?") <= nullPct {
			nulls := []string{"nil", "nilptr", "invalid"}
			if typ == "json" || typ == "jsonb" {
				nulls = []string{"nil"}
			}
			v.Null = rapid.SampledFrom(nulls).Draw(t, "null")
			return v
		}
		switch typ {
		case "bool":
			v.B = rapid.Bool().Draw(t, "b")
		case "int2", "int4", "int8", "oid":
			var x int64
			if rapid.Bool().Draw(t, "bound") {
				x = rapid.SampledFrom(i64Bounds).Draw(t, "i")
			} else {
				x = rapid.Int64().Draw(t, "i")
			}
			v.I = clampInt(typ, x)
		case "float4":
			var f float32
			if rapid.Bool().Draw(t, "bound") {
				f = float32(rapid.SampledFrom(f64Bounds).Draw(t, "f"))
			} else {
				f = rapid.Float32().Draw(t, "f")
			}
			v.F = uint64(math.Float32bits(f))
		case "float8":
			var f float64
			if rapid.Bool().Draw(t, "bound") {
				f = rapid.SampledFrom(f64Bounds).Draw(t, "f")
			} else {
				f = rapid.Float64().Draw(t, "f")
			}
			v.F = math.Float64bits(f)
		case "text", "varchar", "name", "bpchar", "custom":
			v.S = CString(300).Draw(t, "s")
			if typ != "custom" && rapid.IntRange(0, 11).Draw(t, "raw-bytes?") == 0 {
				// not valid UTF-8 / containing NUL: a value is length-prefixed bytes, whatever they are
				v.S = ""
				v.SB = rapid.OneOf(
					rapid.SampledFrom([][]byte{[]byte("caf\xe9"), {0xff, 0xfe}, {0xc3}, []byte("a\x80b"), {0xed, 0xa0, 0x80}, []byte("nul\x00inside"), {0xf0, 0x9f, 0x98}, []byte("\xe9\xe9\xe9\xe9 latin1")}),
					rapid.SliceOfN(rapid.Byte(), 1, 40),
				).Draw(t, "sb")
			}
		case "json", "jsonb":
			v.S = rapid.SampledFrom([]string{`{}`, `[]`, `null`, `{"a":1}`, `"s"`, `[1,2,{"k":"é"}]`, `0`, `{"q":"\"\\"}`, ` {"sp": true} `}).Draw(t, "json")
		case "bytea":
			switch rapid.IntRange(0, 3).Draw(t, "bytea-kind") {
			case 0:
				v.Y = []byte{}
			case 1:
				all := make([]byte, 256)
				for i := range all {
					all[i] = byte(i)
				}
				v.Y = all
			default:
				v.Y = rapid.SliceOfN(rapid.Byte(), 0, 64).Draw(t, "y")
				if v.Y == nil {
					v.Y = []byte{}
				}
			}
		case "uuid":
			switch rapid.IntRange(0, 3).Draw(t, "uuid-kind") {
			case 0:
				v.Y = make([]byte, 16)
			case 1:
				v.Y = []byte(strings.Repeat("\xff", 16))
			default:
				v.Y = rapid.SliceOfN(rapid.Byte(), 16, 16).Draw(t, "y")
			}
		case "date":
			// years 1..9999: days relative to 2000-01-01
			if rapid.Bool().Draw(t, "bound") {
				v.I = rapid.SampledFrom([]int64{0, 1, -1, -10957, -10958, 59, 60, 365, 366, -730119, 2921939, 7670, 7671}).Draw(t, "d")
			} else {
				v.I = rapid.Int64Range(-730119, 2921939).Draw(t, "d")
			}
		case "timestamp", "timestamptz":
			if rapid.Bool().Draw(t, "bound") {
				v.I = rapid.SampledFrom([]int64{0, 1, -1, 999999, 1000000, -946684800000000, 86399999999, 86400000000, -63082281600000000, 252455615999999999, 500000, 120000}).Draw(t, "ts")
			} else {
				v.I = rapid.Int64Range(-63082281600000000, 252455615999999999).Draw(t, "ts")
			}
		default:
			panic("gen.Val: type " + typ)
		}
		if (typ == "date" || typ == "timestamp" || typ == "timestamptz") && rapid.IntRange(0, 2).Draw(t, "zoned?") == 0 {
			v.Zone = rapid.SampledFrom([]int{7200, -18000, 45900, -43200, 50400, 1, -1, 19800}).Draw(t, "zone")
		}
		return v
	})
}

// TypeName draws one of the supported column types.
func TypeName() *rapid.Generator[string] { return rapid.SampledFrom(pgwire.TypeNames) }

// SimpleTypes are the types used where typed round-trips are not the point.
var SimpleTypes = []string{"text", "int4", "bool", "int8", "varchar"}

// Cols generates n column declarations over the given type names.
func Cols(n int, types []string) *rapid.Generator[[]script.Col] {
	return rapid.Custom(func(t *rapid.T) []script.Col {
		if n == 0 {
			rapid.Just(0).Draw(t, "no-columns")
		}
		cols := make([]script.Col, n)
		for i := range cols {
			c := script.Col{T: rapid.SampledFrom(types).Draw(t, "type")}
			switch rapid.IntRange(0, 5).Draw(t, "name-kind") {
			case 0:
				c.Name = ""
			case 1:
				c.Name = CString(300).Draw(t, "name")
			default:
				c.Name = rapid.StringMatching(`[a-z]{1,6}`).Draw(t, "name")
			}
			if rapid.IntRange(0, 2).Draw(t, "attrs") == 0 {
				c.Table = rapid.SampledFrom([]int32{0, 1, -1, math.MaxInt32, math.MinInt32, 256}).Draw(t, "table")
				c.AttrNo = rapid.SampledFrom([]int16{0, 1, -1, math.MaxInt16, math.MinInt16, 256}).Draw(t, "attrno")
				c.Width = rapid.SampledFrom([]int16{0, 4, -1, math.MaxInt16, math.MinInt16}).Draw(t, "width")
				c.ID = rapid.Int32().Draw(t, "id")
				c.Attr = rapid.Int16().Draw(t, "attr")
				c.TypMod = rapid.SampledFrom([]int32{0, -1, 65535, math.MinInt32}).Draw(t, "typmod")
			}
			cols[i] = c
		}
		return cols
	})
}

// Row generates one value per column (right arity, encodable).
func Row(cols []script.Col, nullPct int, reps bool) *rapid.Generator[[]script.Val] {
	return rapid.Custom(func(t *rapid.T) []script.Val {
		if len(cols) == 0 {
			rapid.Just(0).Draw(t, "no-columns")
		}
		vals := make([]script.Val, len(cols))
		for i, c := range cols {
			vals[i] = Val(c.T, nullPct, reps).Draw(t, "val")
		}
		return vals
	})
}

// MaybeBig occasionally replaces one text / bytea value of a row a handler writes by one of 4-9 KB (a
// DataRow larger than a page, after and before rows of a few bytes).
func MaybeBig(t *rapid.T, vals []script.Val) []script.Val {
	if rapid.IntRange(0, 24).Draw(t, "big-value?") != 7 {
		return vals
	}
	for i := range vals {
		v := &vals[i]
		if v.IsNull() || v.Bad {
			continue
		}
		n := rapid.SampledFrom([]int{4090, 4096, 5000, 9000}).Draw(t, "big-size")
		switch v.T {
		case "text", "varchar":
			v.S, v.SB = strings.Repeat("big-", n/4), nil
			return vals
		case "bytea":
			v.Y = []byte(strings.Repeat("BIG-", n/4))
			return vals
		}
	}
	return vals
}

// Segments generates a read segmentation plan: nil (unbounded), all ones, or
// a list of small sizes.
func Segments() *rapid.Generator[[]int] {
	return rapid.Custom(func(t *rapid.T) []int {
		switch rapid.IntRange(0, 3).Draw(t, "seg-kind") {
		case 0:
			return nil
		case 1:
			return []int{1}
		}
		return rapid.SliceOfN(rapid.IntRange(1, 9), 1, 40).Draw(t, "segs")
	})
}

// Ops generates the body of a statement function over the given columns:
// rows of right / wrong arity / with an unencodable value, Written() probes,
// Empty, Complete, operations after completion, an early or final return
// with or without error.
func Ops(cols []script.Col, maxOps int, withErr bool) *rapid.Generator[[]script.Op] {
	return rapid.Custom(func(t *rapid.T) []script.Op {
		n := rapid.IntRange(0, maxOps).Draw(t, "nops")
		var ops []script.Op
		for i := 0; i < n; i++ {
			switch rapid.IntRange(0, 11).Draw(t, "op") {
			case 0, 1, 2, 3:
				ops = append(ops, script.Op{K: "row", Vals: MaybeBig(t, Row(cols, 15, false).Draw(t, "row"))})
			case 4: // wrong arity
				k := rapid.SampledFrom([]int{0, len(cols) - 1, len(cols) + 1}).Draw(t, "arity")
				if k < 0 {
					k = 1
				}
				vals := make([]script.Val, k)
				for j := range vals {
					vals[j] = script.Val{T: "text", S: "x"}
				}
				ops = append(ops, script.Op{K: "row", Vals: vals})
			case 5: // unencodable value at some column
				if len(cols) == 0 {
					continue
				}
				vals := Row(cols, 0, false).Draw(t, "row")
				vals[rapid.IntRange(0, len(cols)-1).Draw(t, "bad-at")].Bad = true
				ops = append(ops, script.Op{K: "row", Vals: vals})
			case 6, 7:
				ops = append(ops, script.Op{K: "written"})
			case 8:
				ops = append(ops, script.Op{K: "empty"})
			case 9, 10:
				ops = append(ops, script.Op{K: "complete", Tag: rapid.SampledFrom([]string{"OK", "SELECT 1", "", "INSERT 0 1", "é", strings.Repeat("T", 300)}).Draw(t, "tag")})
			case 11:
				if withErr {
					op := script.Op{K: "ret"}
					if rapid.Bool().Draw(t, "ret-err") {
						op.Err = SmallErr().Draw(t, "err")
					}
					ops = append(ops, op)
				}
			}
		}
		return ops
	})
}

// Stmt generates a statement script.
func Stmt(types []string, maxCols, maxOps int, withErr bool) *rapid.Generator[script.Stmt] {
	return rapid.Custom(func(t *rapid.T) script.Stmt {
		nc := rapid.IntRange(0, maxCols).Draw(t, "ncols")
		st := script.Stmt{}
		if nc > 0 {
			st.Cols = Cols(nc, types).Draw(t, "cols")
		}
		st.Ops = Ops(st.Cols, maxOps, withErr).Draw(t, "ops")
		return st
	})
}

// Outcome generates a parser outcome: error, zero, one or several statements.
func Outcome(types []string, maxStmts, maxCols, maxOps int) *rapid.Generator[script.Outcome] {
	return rapid.Custom(func(t *rapid.T) script.Outcome {
		switch rapid.IntRange(0, 9).Draw(t, "outcome") {
		case 0:
			return script.Outcome{Err: SmallErr().Draw(t, "perr")}
		case 1:
			return script.Outcome{}
		case 2, 3, 4:
			if maxStmts >= 2 {
				return script.Outcome{Stmts: rapid.SliceOfN(Stmt(types, maxCols, maxOps, true), 2, maxStmts).Draw(t, "stmts")}
			}
		}
		return script.Outcome{Stmts: []script.Stmt{Stmt(types, maxCols, maxOps, true).Draw(t, "stmt")}}
	})
}

// QueryNames are distinctive query texts used as table keys.
var QueryNames = []string{"select 1", "select a from t", "insert into t values (1)", "Q3 é", "update t set a = $1", "delete from t", "q6", "call panics()"}
