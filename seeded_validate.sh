#!/bin/bash
# usage: seeded_validate.sh <ID> [worktree]   -- confirm a seeded change: suite passes, demo fails with / passes without
id=$1; d=${2:-/tmp/seed_$id}
export GOPROXY=off GOSUMDB=off GOTOOLCHAIN=local
cd $d || exit 2
demo=$(python3 -c "import json;print(json.load(open('_seed/meta.json')).get('demo_file','seed_demo_test.go'))" 2>/dev/null)
demo=$(basename "$demo")
[ -f "$demo" ] || demo=seed_demo_test.go
cmd=$(python3 -c "import json;print(json.load(open('_seed/meta.json'))['demo_cmd'])")
echo "--- demo with change"; bash -c "$cmd" > /tmp/val_$id.with 2>&1; echo "rc=$?"
mv $demo /tmp/val_$id.demo.go
echo "--- suite with change"; go build ./... && go test -count=1 ./... 2>&1 | grep -E '^(ok|FAIL|---|panic)' | head -5
git diff > /tmp/val_$id.patch
git checkout -q -- . 
mv /tmp/val_$id.demo.go $demo
echo "--- demo without change"; bash -c "$cmd" > /tmp/val_$id.without 2>&1; echo "rc=$?"
git apply /tmp/val_$id.patch && echo "patch re-applied ($(wc -l < /tmp/val_$id.patch) diff lines)"
