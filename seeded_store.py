#!/usr/bin/env python3
"""usage: seeded_store.py <round> <ID>...   validates /tmp/seed<round>_<ID> and stores it as seeded/<ID>[-<round>]"""
import json, os, shutil, subprocess, re, sys
V=os.path.dirname(os.path.abspath(__file__))
rnd=sys.argv[1]
for pid in sys.argv[2:]:
    d='/tmp/seed%s_%s'%('' if rnd=='1' else rnd, pid)
    name=pid if rnd=='1' else '%s-%s'%(pid,rnd)
    v=subprocess.run([os.path.join(V,'seeded_validate.sh'),pid,d],capture_output=True,text=True).stdout
    rcs=re.findall(r'rc=(\d+)',v)
    suite_ok='FAIL' not in v and 'panic' not in v
    valid = len(rcs)==2 and rcs[0]!='0' and rcs[1]=='0' and suite_ok
    meta=json.load(open(os.path.join(d,'_seed','meta.json')))
    extra=[a for a in sys.argv if a.startswith('also=')]
    checks=[pid]+[x for a in extra for x in a[5:].split(',') if x]
    results={}
    for chk in checks:
        r=subprocess.run([os.path.join(V,'check'),chk],env=dict(os.environ,VERIF_REPO=d),capture_output=True,text=True,cwd=V)
        sigs=sorted(set(re.findall(r'replays/%s/(\S+?)-[0-9a-f]+\.json'%chk, r.stdout)))
        detail=[l for l in r.stdout.splitlines() if l.startswith('VERIF-DETAIL')][:1]
        results[chk]=dict(exit=r.returncode,signatures=sigs,first_detail=(detail[0][:500] if detail else ''))
    print(name,'valid=%s'%valid,'rcs=%s suite_ok=%s'%(rcs,suite_ok),{k:(v['exit'],v['signatures'][:2]) for k,v in results.items()})
    if not valid:
        print(v[-800:]); continue
    dst=os.path.join(V,'seeded',name); os.makedirs(dst,exist_ok=True)
    open(os.path.join(dst,'patch.diff'),'w').write(subprocess.run(['git','-C',d,'diff'],capture_output=True,text=True).stdout)
    shutil.copy(os.path.join(d,'seed_demo_test.go'), os.path.join(dst,'seed_demo_test.go.txt'))
    json.dump(dict(property_id=pid, round=int(rnd), breaks=meta.get('summary'), needs=meta.get('needs'), files_changed=meta.get('files_changed'),
        demonstration='seed_demo_test.go.txt', demonstration_cmd=meta.get('demo_cmd'),
        origin='independent sub-agent given only the property text (and, from round 2, the summary of the earlier seeded change to avoid) and a scratch worktree',
        confirmed_by_me=dict(what_i_ran='seeded_validate.sh (demonstration with the change fails, existing suite with the change passes, demonstration without the change passes); VERIF_REPO=<worktree> ./check <id>',
                             demo_fails_with_change=True, demo_passes_without_change=True, suite_passes_with_change=True),
        checks=results), open(os.path.join(dst,'meta.json'),'w'), indent=1)
