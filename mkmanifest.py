#!/usr/bin/env python3
"""Regenerates MANIFEST.json from checks.json (run after adding a check)."""
import json, os, subprocess

V = os.path.dirname(os.path.abspath(__file__))
checks = json.load(open(os.path.join(V, "checks.json")))
props = [json.loads(l) for l in open(os.path.join(V, "properties.jsonl"))]

T = {
 "C01": ("rapid cases over validator outcome x what is sent in place of the password x continuation; oracle: no AuthenticationOk/ParameterStatus/ReadyForQuery, no callback, connection closed, class-28 error on a wrong password; the accepting direction is compared with the reference model", "rapid + reference model + trace invariant", "4 C01"),
 "C02": ("every byte the server sends in generated sessions (handler programs x client histories incl. malformed, oversized, COPY, auth, TLS-refused) is parsed by an independent strict backend grammar; native fuzzing of the client byte stream in thorough", "rapid + strict independent grammar (+ go fuzz)", "4 C02"),
 "C03": ("differential over read segmentations of one byte stream (transcript and callback trace must be identical), metamorphic surplus-stripping, and a model-based test of the buffer.Reader accessors against an independent cursor", "rapid + differential/metamorphic + accessor model (+ go fuzz)", "4 C03"),
 "C04": ("generated hostile byte strings in every phase, exhaustive enumeration of transport fault positions per generated session, allocation bound on declared-vs-delivered sizes, no-fabrication check of callback data; panics are intercepted by the verif hook and shrunk", "rapid + fault enumeration + allocation oracle (+ go fuzz)", "4 C04"),
 "C05": ("handler programs (result-writer operation sequences) x Query histories compared step by step with a reference model of the simple-query cycle and of the writer state machine (replies, return values, Written(), bytes emitted per operation)", "rapid + reference model", "4 C05"),
 "C06": ("class-first generated extended-query histories (every error position, unknown names, discard-until-Sync, stepwise with quiescence and pipelined) compared with the reference model; one ReadyForQuery per Sync", "rapid (model-guided history generation) + reference model", "4 C06"),
 "C07": ("identity-echoing statements; histories re-parse/rebind/close names on 1..3 connections under a generated message-level interleaving; per-connection two-map model and isolation invariants", "rapid + reference model + isolation invariant", "4 C07"),
 "C08": ("round trip of generated Bind messages (NULL/empty/bytes/typed text+binary values, all admissible format-code shapes) to the parameters observed inside the handler incl. Parameter.Scan, and of result-format codes to RowDescription/DataRow decoded by the harness's own decoders", "rapid + round trip with independent codec", "4 C08"),
 "C09": ("round trip of boundary-biased values of 15 types in every Go representation and NULL spelling through DataRow, decoded by the harness's own text and binary decoders in the announced format", "rapid + round trip with independent decoder", "4 C09"),
 "C10": ("boundary enumeration of declared sizes around every generated limit crossed with message type and session position; differential against a high-limit server for sizes <= L; 54000/non-fatal/recovery/no-callback/no-buffering oracle for sizes > L", "rapid + boundary enumeration + differential + allocation oracle", "4 C10"),
 "C11": ("generated client behaviours around SSLRequest x server TLS configurations; wire tap must be 'S' + TLS records only, no plaintext marker on the wire, TLS session transcript equals the plaintext run of the same history (differential), stuffed plaintext never interpreted", "rapid + differential TLS-vs-plaintext + wire-tap invariant", "4 C11"),
 "C12": ("generated startup packets and server configurations, concurrent connecting users; ParameterStatus multiset and context accessors compared with the sent/configured values; user map deep-compared; CancelRequest at every stage", "rapid + round trip + non-interference check", "4 C12"),
 "C13": ("COPY-phase message histories x handler read policies compared step by step with the reference model of COPY mode (chunks and errors seen by the handler, exactly one error cycle, stray COPY messages ignored)", "rapid + reference model", "4 C13"),
 "C14": ("binary COPY streams of generated rows cut by generated chunkings (metamorphic: every chunking yields the same rows; round trip: the rows are the generated ones) and corrupted streams (error, never panic or fabricated row)", "rapid + round trip + metamorphic chunking (+ go fuzz)", "4 C14"),
 "C15": ("generated session sets run concurrently (free-running and owned message interleavings) and solo; transcripts and traces must be equal (differential); the binary is built with -race and any report is a violation", "rapid + differential solo-vs-concurrent + Go race detector", "4 C15"),
 "C16": ("generated scenarios of connections in each admission state x Close callers held at build-tag schedule points x release orders; history invariants over logical timestamps (no handler spans or follows the return of Close, no panic, no deadlock, Serve returns nil); small scenario space enumerated", "rapid over owned schedules (verif hooks) + history invariants", "4 C16"),
 "C17": ("error trees as data (any nesting of the six decorators and fmt wrapping) delivered directly and end-to-end; ErrorResponse parsed strictly and compared with an independent outermost-wins fold", "rapid + independent model of decoration folding", "4 C17"),
 "C18": ("callbacks retain the zero-copy values they were given next to private copies; histories with message sizes biased to the 4 KiB granule and the limit (oversized, COPY); every retained value re-checked after every later message", "rapid + retention invariant", "4 C18"),
 "C19": ("generated middleware chains (failing at any position), auth on/off, command histories, terminate hook; trace invariants: order, once-only, context propagation, per-command cancellation, terminate exactly once", "rapid + trace invariants", "4 C19"),
 "C20": ("query strings from a marker grammar and arbitrary strings against a hand-written scanner (count / highest index, totality, boundedness), end-to-end ParameterDescription; native fuzzing in thorough", "rapid + independent scanner (+ go fuzz)", "4 C20"),
}

NOTE = "Trusted base: the harness's own codec/model/interpreter (written from the protocol documentation, shares no code with the library), the Go toolchain, rapid v1.3.0; in-memory transport instead of TCP; bounded search - a pass is evidence for the explored cases only, not a proof."

hooks_commits = []
try:
    out = subprocess.run(["git", "-C", "/repo", "log", "--format=%H %s"], capture_output=True, text=True).stdout
    for line in out.splitlines():
        h, s = line.split(" ", 1)
        if s.startswith("verif hooks"):
            hooks_commits.append(h)
except Exception:
    pass

manifest = {
 "version": 1,
 "setup_cmd": "./check --setup",
 "hooks": {
  "guard": "verif",
  "enable": "go test -tags verif (the harness module replaces github.com/jeroenrinzema/psql-wire with /repo and every check rebuilds its test binary with -tags verif)",
  "baseline_off_cmd": "cd /repo && GOPROXY=off GOSUMDB=off GOTOOLCHAIN=local go test -json -vet=off -count=1 -timeout 25m ./...",
  "source_commits": hooks_commits,
  "add_only": True,
 },
 "engines": [
  {"name": "rapid+harness", "path": "harness/", "serves_properties": sorted(checks), "kind_free_text": "property-based testing (pgregory.net/rapid v1.3.0) over an in-memory transport with an independent codec, handler programs as data and a reference model; native go fuzzing for byte-level targets in the thorough tier"},
 ],
 "checks": [],
 "not_applicable": [],
 "notes": "All checks: ./check <ID> [--tier quick|thorough]; replay: ./check <ID> --replay <file>. VERIF_SEED selects the rapid seed (derived per shard). Exit 2 = inconclusive (infrastructure).",
}
for p in props:
    pid = p["id"]
    if pid in checks:
        text, tech, ref = T[pid]
        cfg = checks[pid]
        manifest["checks"].append({
            "property_id": pid,
            "quick_cmd": "./check %s --tier quick" % pid,
            "thorough_cmd": "./check %s --tier thorough" % pid,
            "evidence_file": "/verif/evidence/%s.json" % pid,
            "replay_cmd_template": "./check %s --replay {path}" % pid,
            "engine": "rapid+harness",
            "level_claimed": {"category": cfg.get("level", "exploration"), "text": text, "design_ref": "DESIGN.md section " + ref},
            "level_note": NOTE + (" Assumptions: " + "; ".join(cfg.get("assumptions", [])) if cfg.get("assumptions") else ""),
            "technique": tech,
        })
    else:
        manifest["not_applicable"].append({"property_id": pid, "reason": "not claimed yet: the check for this property is still being built (property-based testing applies; see DESIGN.md section 4 %s)" % pid})
json.dump(manifest, open(os.path.join(V, "MANIFEST.json"), "w"), indent=1)
print("claimed:", [c["property_id"] for c in manifest["checks"]])
