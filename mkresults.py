#!/usr/bin/env python3
"""Regenerates seeded/RESULTS.md from seeded/*/meta.json and seeded/first_attempt.json
(name -> was the change caught by the checks as they were when it was first tried)."""
import json, os, glob, re
V=os.path.dirname(os.path.abspath(__file__))
first=json.load(open(os.path.join(V,'seeded','first_attempt.json')))
rows=[]
def key(n):
    m=re.match(r'C(\d+)(?:-(\d+))?$',n); return (int(m.group(1)), int(m.group(2) or 1))
names=sorted([os.path.basename(d) for d in glob.glob(os.path.join(V,'seeded','C??*')) if os.path.isdir(d)], key=key)
tot={}; 
for n in names:
    m=json.load(open(os.path.join(V,'seeded',n,'meta.json')))
    pid=m['property_id']; rnd=m.get('round',1)
    if 'checks' in m:
        caught=any(c['exit']==1 for c in m['checks'].values())
        sigs=' '.join('`%s`'%s for c in m['checks'].values() for s in c['signatures'][:2])
    else:  # round 1 layout
        caught=m.get('check_exit')==1
        sigs=' '.join('`%s`'%s for s in (m.get('signatures') or [])[:2])
    f=first.get(n)
    t=tot.setdefault(rnd,[0,0,0]); t[0]+=1; t[1]+= (f is True); t[2]+=caught
    rows.append('| %s | %s | %s | %s | %s |'%(n,'yes' if caught else 'NO','yes' if f else 'no - check strengthened',sigs,(m.get('breaks') or '').replace('|','/').replace('\n',' ')[:200]))
head=open(os.path.join(V,'seeded','RESULTS.head.md')).read()
out=head+'\n| change | caught | at first attempt | signature(s) | what the change does |\n|---|---|---|---|---|\n'+'\n'.join(rows)+'\n\n'
out+='Totals: '+'; '.join('round %d: %d changes, %d caught at first, %d caught now'%(r,t[0],t[1],t[2]) for r,t in sorted(tot.items()))+'.\n'
out+='Every miss was a gap in what the generators produce (or, for C11-4 / C19-4, in what the harness observes), not an oracle unable to see the difference.\n\n'+open(os.path.join(V,'seeded','RESULTS.tail.md')).read()
open(os.path.join(V,'seeded','RESULTS.md'),'w').write(out)
print(re.search(r'Totals:.*',out).group(0))
