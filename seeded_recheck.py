#!/usr/bin/env python3
"""Re-applies every seeded change to a scratch worktree and runs the property's check against it.
usage: seeded_recheck.py [name-substring...]   (writes seeded/RECHECK.txt)"""
import glob, json, os, subprocess, sys, re
V=os.path.dirname(os.path.abspath(__file__))
out=[]
for d in sorted(glob.glob(os.path.join(V,'seeded','C??*'))):
    if not os.path.isdir(d): continue
    name=os.path.basename(d); pid=name[:3]
    if sys.argv[1:] and not any(a in name for a in sys.argv[1:]): continue
    wt='/tmp/recheck_wt'
    subprocess.run(['git','-C','/repo','worktree','remove','--force',wt],capture_output=True)
    subprocess.run(['git','-C','/repo','worktree','add','-q','--detach',wt,'HEAD'],check=True)
    r=subprocess.run(['git','-C',wt,'apply',os.path.join(d,'patch.diff')],capture_output=True,text=True)
    if r.returncode:
        out.append('%s PATCH-FAILED %s'%(name,r.stderr.strip()[:100])); print(out[-1]); continue
    r=subprocess.run([os.path.join(V,'check'),pid],env=dict(os.environ,VERIF_REPO=wt,VERIF_SKIP_CORPUS='1'),capture_output=True,text=True,cwd=V)
    sigs=sorted(set(re.findall(r'replays/%s/(\S+?)-[0-9a-f]+\.json'%pid, r.stdout)))
    out.append('%s %s %s'%(name,'caught' if r.returncode==1 else 'MISSED(rc=%d)'%r.returncode,' '.join(sigs[:2]))); print(out[-1],flush=True)
    subprocess.run(['git','-C','/repo','worktree','remove','--force',wt],capture_output=True)
open(os.path.join(V,'seeded','RECHECK.txt'),'w').write('\n'.join(out)+'\n')
